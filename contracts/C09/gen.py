"""Generates build/C09/kani/src/gen.rs from wrappers.toml and the mechanical enumeration."""
import os, sys, tomllib
HERE = os.path.dirname(os.path.abspath(__file__))
sys.path.insert(0, HERE)
import enumerate as enum_mod

CARRY = {
    "unit": "|_, _| true",
    "usize": "|v, ret| *v == ret",
    "fd": "|v, ret| v.value() == ret as i32",
    "i32": "|v, ret| *v == ret as i32",
    "u32": "|v, ret| *v == ret as u32",
    "u64": "|v, ret| *v == ret as u64",
    "i64": "|v, ret| *v == ret as i64",
    "opaque": "|_, _| true",
}

def generate(repo):
    """returns (gen_rs_text, info dict, problems[])"""
    table = tomllib.load(open(os.path.join(HERE, "wrappers.toml"), "rb"))
    found = enum_mod.enumerate_wrappers(repo)
    names = []
    problems = []
    for w in found:
        if w["name"] not in names:
            names.append(w["name"])
    out = ["// generated — do not edit"]
    covered, excluded, uncovered = [], [], []
    for n in names:
        row = table.get(n)
        if row is None:
            uncovered.append(n)
            continue
        kind = row["kind"]
        if kind.startswith("excluded:"):
            excluded.append("%s: %s" % (n, kind[9:]))
            continue
        covered.append(n)
        bounded = n in ("dup2", "dup3")
        out.append("#[kani::proof]")
        if bounded:
            out.append("#[kani::unwind(12)]")
        out.append("pub fn c09_%s() {" % n)
        out.append("    use %s::*;" % row["path"])
        out.append("    kernel::reset();")
        if bounded:
            out.append("    kernel::set_call_budget(3);")
        if row.get("mode"):
            out.append("    kernel::set_mode(%s);" % row["mode"])
        out.append("    let r = %s;" % row["call"])
        if kind.startswith("custom:"):
            out.append("    %s(&r);" % kind[7:])
        elif kind.startswith("carry:"):
            out.append("    check(&r, %s);" % kind[6:])
        else:
            out.append("    check(&r, %s);" % CARRY[kind])
        out.append("    kani::cover!(r.is_err(), \"error path reachable\");")
        if n != "execve":
            out.append("    kani::cover!(r.is_ok(), \"success path reachable\");")
        out.append("}")
    stale = [k for k in table if k not in names]
    if uncovered:
        problems.append("uncovered wrappers (no row in wrappers.toml): " + ", ".join(uncovered))
    if stale:
        problems.append("anchor lost: wrappers.toml rows without a function in rusl: " + ", ".join(stale))
    return {"src/gen.rs": "\n".join(out) + "\n"}, {"enumerated": len(names), "covered": covered, "excluded": excluded}, problems

if __name__ == "__main__":
    t, info, pr = generate(sys.argv[1] if len(sys.argv) > 1 else "/repo")
    print(t); print(info, pr, file=sys.stderr)

"""Enumerate rusl's raw syscall wrappers mechanically: every non-test fn whose body contains
`syscall!`, plus every pub fn of the same file that calls such a (private) fn by name."""
import os, re, sys
sys.path.insert(0, os.path.join(os.path.dirname(os.path.abspath(__file__)), "..", "..", "vp"))
from rustscan import code_mask, top_level_blocks, _strip_noncode

def fns_in(src, mask, start, end, out, prefix=""):
    for hdr, ob, cb in top_level_blocks(src, mask, start, end):
        h = re.sub(r"\s+", " ", _strip_noncode(src, mask, hdr, ob)).strip()
        if re.search(r"#\[cfg\(test\)\]", h) or re.search(r"\bmod tests?\b", h):
            continue
        m = re.search(r"\bfn\s+(\w+)", h)
        if m and not re.search(r"^\s*(impl|trait|mod)\b", re.sub(r"#\[[^\]]*\]\s*", "", h)):
            is_pub = re.search(r"\bpub\s+(?:const\s+)?(?:unsafe\s+)?(?:extern\s+\"C\"\s+)?fn\b", h) is not None
            cfgs = re.findall(r"#\[cfg\(([^\]]*)\)\]", src[hdr:ob])
            body = _strip_noncode(src, mask, ob, cb + 1)
            out.append({"name": prefix + m.group(1), "pub": is_pub, "body": body, "cfg": cfgs,
                        "line": src.count("\n", 0, ob) + 1})
        elif re.search(r"\bmod\s+\w+$", h):
            fns_in(src, mask, ob + 1, cb, out, prefix)

def enumerate_wrappers(repo):
    root = os.path.join(repo, "rusl", "src")
    res = []
    for dp, dn, fn in os.walk(root):
        for f in sorted(fn):
            if not f.endswith(".rs") or f in ("test.rs", "tests.rs"):
                continue
            p = os.path.join(dp, f)
            src = open(p).read()
            if "syscall!" not in src:
                continue
            mask = code_mask(src)
            fns = []
            fns_in(src, mask, 0, len(src), fns)
            direct = {x["name"] for x in fns if "syscall!" in x["body"]}
            reach = set(direct)
            changed = True
            while changed:
                changed = False
                for x in fns:
                    if x["name"] not in reach and any(re.search(r"\b%s\s*\(" % re.escape(d), x["body"]) for d in reach):
                        reach.add(x["name"])
                        changed = True
            for x in fns:
                if x["name"] in reach and x["pub"]:
                    if any("aarch64" in c and "not" not in c for c in x["cfg"]):
                        continue
                    res.append({"file": os.path.relpath(p, repo), "name": x["name"], "line": x["line"],
                                "direct": "syscall!" in x["body"]})
    return res

if __name__ == "__main__":
    for w in enumerate_wrappers(sys.argv[1] if len(sys.argv) > 1 else "/repo"):
        print(w["file"], w["name"], w["line"], "direct" if w["direct"] else "via-helper")

"""C08 custom step: native companion of the Verus unit (bounded, never counted as proof).

Builds native/c08/main.rs against (a) the real tiny-start/src/symbols/mem.rs with only its `#[no_mangle]` lines
removed and (b) the plain emission of contracts/C08/mem.rs.tmpl (the rewritten bodies the verifier sees, contracts
stripped), runs the property's own input grid, and
  * records concrete failing inputs of the REAL functions (`WITNESS`) — used as the replayable counterexample of a
    failed Verus obligation, or reported on their own if the proof went through but the real code misbehaves;
  * reports a difference between rewritten and real bodies (`XLATE`) as an infrastructure problem (exit 2): rule R7
    no longer preserves behaviour, so the proof would be about different code.
"""
import os
import re
import subprocess
import sys
import time

VERIF = os.path.dirname(os.path.dirname(os.path.dirname(os.path.abspath(__file__))))
sys.path.insert(0, os.path.join(VERIF, "vp"))
import extract  # noqa: E402
from rustscan import AnchorLost, Unsupported  # noqa: E402


def run(plan, out, tier, repo):
    prop = plan["id"]
    bdir = os.path.join(VERIF, "build", prop if repo == "/repo" else "scratch_" + prop, "native")
    os.makedirs(bdir, exist_ok=True)
    src = os.path.join(repo, "tiny-start/src/symbols/mem.rs")
    try:
        real = open(src, encoding="utf-8").read()
        ex = extract.render(os.path.join(VERIF, "contracts", prop, "mem.rs.tmpl"), repo=repo, plain=True)
    except (OSError, AnchorLost, Unsupported) as e:
        out.infra.append("native c08: cannot prepare sources: %s" % e)
        return
    kept = [ln for ln in real.split("\n") if ln.strip() != "#[no_mangle]"]
    dropped = real.count("\n") + 1 - len(kept)
    with open(os.path.join(bdir, "real.rs"), "w") as f:
        f.write("\n".join(kept))
    with open(os.path.join(bdir, "rewritten.rs"), "w") as f:
        f.write("use super::native_prelude::*;\n" + re.sub(r"(?m)^fn ", "pub fn ", ex.text))
    with open(os.path.join(bdir, "main.rs"), "w") as f:
        f.write(open(os.path.join(VERIF, "native", "c08", "main.rs")).read())
    t0 = time.time()
    c = subprocess.run(["rustc", "-O", "--edition", "2021", "main.rs", "-o", "c08_native"], cwd=bdir,
                       capture_output=True, text=True, timeout=600)
    if c.returncode != 0:
        out.infra.append("native c08: companion does not compile: %s" % c.stderr[-800:])
        return
    args = ["./c08_native"] + (["--thorough"] if tier == "thorough" else [])
    try:
        r = subprocess.run(args, cwd=bdir, capture_output=True, text=True, timeout=1800)
    except subprocess.TimeoutExpired:
        out.infra.append("native c08: companion timed out")
        return
    wall = time.time() - t0
    lines = r.stdout.split("\n")
    wit = [ln[len("WITNESS "):] for ln in lines if ln.startswith("WITNESS ")]
    xl = [ln[len("XLATE "):] for ln in lines if ln.startswith("XLATE ")]
    summ = [ln for ln in lines if ln.startswith("SUMMARY ")]
    out.checker_cmds.append("(cd build/%s/native && rustc -O --edition 2021 main.rs -o c08_native && %s)" % (prop, " ".join(args)))
    if not summ or r.returncode not in (0, 1, 3):
        # a crash of the companion with the real functions inside is itself a finding only if a witness was printed
        out.infra.append("native c08: companion ended abnormally (rc=%s): %s" % (r.returncode, (r.stderr or r.stdout)[-400:]))
        if not wit:
            return
    out.bounded.append({"harness": "native:c08_companion", "checks": 1, "failed": 1 if wit else 0, "time_s": round(wall, 2),
                        "covers": "n/a", "bound": "n <= %d exhaustively over misalignments 0..15 and overlap distances, sampled sizes "
                        "up to 1 MiB (seeded LCG); run natively on the real functions, `#[no_mangle]` lines removed (%d)" %
                        (72 if tier == "thorough" else 40, dropped), "summary": summ[-1] if summ else ""})
    if xl:
        out.infra.append("native c08: translation validation failed — rewritten bodies differ from the real ones: %s" % xl[0])
    out.native_witnesses = {"inputs": wit[:12], "cmd": "cd %s && %s" % (bdir, " ".join(args)),
                            "what": "byte-loop reference with red zones vs the real functions"}
    if wit and not any(f["backend"] == "verus" for f in out.failed):
        fn = re.search(r"fn=(\w+)", wit[0])
        out.failed.append({"name": "native:c08_companion:%s_matches_reference" % (fn.group(1) if fn else "mem"), "backend": "native",
                           "detail": "\n".join(wit[:12]), "bounded": True})

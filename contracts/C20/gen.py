"""Copies every item carrying #[derive(ArgParse..)] / #[derive(Subcommand..)] from
tiny-cli/tests/derive_test.rs into the harness crate (so the repository's real proc-macro generates the
parsers) and emits one never-panics harness per derived struct."""
import os, re, sys
sys.path.insert(0, os.path.join(os.path.dirname(os.path.abspath(__file__)), "..", "..", "vp"))
from rustscan import code_mask, top_level_blocks, AnchorLost

QUICK = ["SimplestStructWithOpt", "SimplestStructWithArg", "SimplestStructWithOptArg", "SimpleStructWithAliases", "SimplStructWithBool"]

def acceptance(name, item):
    """Acceptance clauses derived mechanically from the struct declaration, for single-field structs whose
    whole grammar fits the harness bound (<= 2 arguments of <= 3 bytes): a boolean flag with a short alias, a
    required positional i32, an optional positional i32.  Anything else gets the never-panics claim only."""
    body = item[item.index("{") + 1:item.rindex("}")]
    fields = re.findall(r"((?:#\[[^\]]*\]\s*)*)(\w+)\s*:\s*([^,\n]+),", body)
    if len(fields) != 1:
        return []
    attrs, fname, ftype = fields[0][0], fields[0][1], fields[0][2].strip()
    short = re.search(r'short\s*=\s*"(\w)"', attrs)
    long_ = re.search(r'long\s*=\s*"([\w-]+)"', attrs)
    out = []
    if ftype == "bool" and short and not long_:
        flag = "-" + short.group(1)
        out += [
            "    // grammar of this struct: [%s]" % flag,
            "    let is_flag = |a: &UnixStr| a.as_slice() == b\"%s\\0\";" % flag,
            "    if n == 0 { assert!(matches!(&r, Ok(v) if !v.%s), \"empty_line_accepted_with_flag_unset\"); }" % fname,
            "    if n == 1 && is_flag(args[0]) { assert!(matches!(&r, Ok(v) if v.%s), \"declared_flag_accepted_and_set\"); }" % fname,
            "    if n == 1 && !is_flag(args[0]) { assert!(r.is_err(), \"undeclared_argument_rejected\"); }",
            "    if n == 2 && !(is_flag(args[0]) && is_flag(args[1])) { assert!(r.is_err(), \"undeclared_argument_rejected\"); }",
        ]
    elif ftype in ("i32", "Option<i32>") and not short and not long_:
        opt = ftype.startswith("Option")
        out += [
            "    // grammar of this struct: %s<i32>%s" % ("[" if opt else "", "]" if opt else ""),
            "    if n == 0 { assert!(%s, \"%s\"); }" % (("matches!(&r, Ok(v) if v.%s.is_none())" % fname, "empty_line_accepted_with_none") if opt
                                                          else ("r.is_err()", "missing_required_value_rejected")),
            "    if n == 1 { match small_i32(args[0].as_slice()) {",
            "        Some(x) => assert!(matches!(&r, Ok(v) if v.%s == %s), \"rendered_value_parses_back\")," % (fname, "Some(x)" if opt else "x"),
            "        None => assert!(r.is_err(), \"malformed_value_rejected\"),",
            "    } }",
        ]
    return out


def generate(repo):
    path = os.path.join(repo, "tiny-cli/tests/derive_test.rs")
    src = open(path).read()
    mask = code_mask(src)
    items, names = [], []
    for hdr, ob, cb in top_level_blocks(src, mask, 0, len(src)):
        h = src[hdr:ob]
        if re.search(r"#\[derive\([^)]*\b(ArgParse|Subcommand)\b", h):
            start = hdr + (len(h) - len(h.lstrip()))
            m = re.search(r"\b(struct|enum)\s+(\w+)", h)
            items.append(src[start:cb + 1])
            if m and m.group(1) == "struct" and re.search(r"derive\([^)]*\bArgParse\b", h):
                names.append(m.group(2))
    if len(items) < 10:
        raise AnchorLost("derive_test.rs: only %d derived items found" % len(items))
    items_by_name = {}
    for it in items:
        mm = re.search(r"\b(?:struct|enum)\s+(\w+)", it)
        if mm:
            items_by_name[mm.group(1)] = it
    derived = "// copied mechanically from tiny-cli/tests/derive_test.rs — do not edit\n" + "\n\n".join(items) + "\n"
    h = ["// generated — one never-panics harness per derived parser"]
    for n in names:
        tier = "q" if n in QUICK else "t"
        h.append("#[cfg(kani)] #[kani::proof] #[kani::unwind(12)]")
        h.append("#[kani::stub(tiny_std::unix::cli::ArgParseError::new_cause_fmt, stub_cause_fmt)]")
        h.append("pub fn c20_derived_%s_%s() {" % (tier, n))
        h.append("    let a0 = any_arg(unsafe { &mut SLOT0 });")
        h.append("    let a1 = any_arg(unsafe { &mut SLOT1 });")
        h.append("    let n: usize = kani::any(); kani::assume(n <= 2);")
        h.append("    let args = [a0, a1];")
        h.append("    let mut it = args.clone().into_iter().take(n);")
        h.append("    // must return Ok or Err — never panic, index out of range or overflow — for arbitrary bytes")
        h.append("    let r = <%s as ArgParse>::arg_parse(&mut it);" % n)
        h.append("    kani::cover!(r.is_err(), \"some argument list is rejected\");")
        h.extend(acceptance(n, items_by_name.get(n, "")))
        h.append("}")
    return ({"src/derived.rs": derived, "src/derived_harnesses.rs": "\n".join(h) + "\n"},
            {"derived_items_copied": len(items), "parsers_with_a_harness": names}, [])

if __name__ == "__main__":
    f, i, p = generate("/repo"); print(i)

"""Copies every item carrying #[derive(ArgParse..)] / #[derive(Subcommand..)] from
tiny-cli/tests/derive_test.rs into the harness crate (so the repository's real proc-macro generates the
parsers) and emits one never-panics harness per derived struct."""
import os, re, sys
sys.path.insert(0, os.path.join(os.path.dirname(os.path.abspath(__file__)), "..", "..", "vp"))
from rustscan import code_mask, top_level_blocks, AnchorLost

QUICK = ["SimplestStructWithOpt", "SimplestStructWithArg", "SimplestStructWithOptArg", "SimpleStructWithAliases", "SimplStructWithBool"]

def generate(repo):
    path = os.path.join(repo, "tiny-cli/tests/derive_test.rs")
    src = open(path).read()
    mask = code_mask(src)
    items, names = [], []
    for hdr, ob, cb in top_level_blocks(src, mask, 0, len(src)):
        h = src[hdr:ob]
        if re.search(r"#\[derive\([^)]*\b(ArgParse|Subcommand)\b", h):
            start = hdr + (len(h) - len(h.lstrip()))
            m = re.search(r"\b(struct|enum)\s+(\w+)", h)
            items.append(src[start:cb + 1])
            if m and m.group(1) == "struct" and re.search(r"derive\([^)]*\bArgParse\b", h):
                names.append(m.group(2))
    if len(items) < 10:
        raise AnchorLost("derive_test.rs: only %d derived items found" % len(items))
    derived = "// copied mechanically from tiny-cli/tests/derive_test.rs — do not edit\n" + "\n\n".join(items) + "\n"
    h = ["// generated — one never-panics harness per derived parser"]
    for n in names:
        tier = "q" if n in QUICK else "t"
        h.append("#[cfg(kani)] #[kani::proof] #[kani::unwind(12)]")
        h.append("#[kani::stub(tiny_std::unix::cli::ArgParseError::new_cause_fmt, stub_cause_fmt)]")
        h.append("pub fn c20_derived_%s_%s() {" % (tier, n))
        h.append("    let a0 = any_arg(unsafe { &mut SLOT0 });")
        h.append("    let a1 = any_arg(unsafe { &mut SLOT1 });")
        h.append("    let n: usize = kani::any(); kani::assume(n <= 2);")
        h.append("    let args = [a0, a1];")
        h.append("    let mut it = args.into_iter().take(n);")
        h.append("    // must return Ok or Err — never panic, index out of range or overflow — for arbitrary bytes")
        h.append("    let r = <%s as ArgParse>::arg_parse(&mut it);" % n)
        h.append("    kani::cover!(r.is_err(), \"some argument list is rejected\");")
        h.append("}")
    return ({"src/derived.rs": derived, "src/derived_harnesses.rs": "\n".join(h) + "\n"},
            {"derived_items_copied": len(items), "parsers_with_a_harness": names}, [])

if __name__ == "__main__":
    f, i, p = generate("/repo"); print(i)

"""Build a harness crate against /repo's working tree and run Kani harnesses in parallel."""
import json
import os
import re
import shutil
import subprocess
import time

VERIF = os.path.dirname(os.path.dirname(os.path.abspath(__file__)))
REPO = os.environ.get("VERIF_REPO", "/repo")


def prepare_ws(prop_id, crate, extra_files=None):
    """Copy kani_ws/<crate> into build/<prop>/kani, instantiate Cargo.toml, copy /repo's lock."""
    src = os.path.join(VERIF, "kani_ws", crate)
    # scratch runs (VERIF_REPO set) get their own build directory so they never disturb a run on /repo
    dst = os.path.join(VERIF, "build", prop_id if REPO == "/repo" else "scratch_" + prop_id, "kani-" + crate)
    os.makedirs(dst, exist_ok=True)
    # refresh sources (keep target/)
    for name in os.listdir(src):
        s = os.path.join(src, name)
        d = os.path.join(dst, name)
        if name == "Cargo.toml.in":
            txt = open(s).read().replace("@REPO@", REPO).replace("@VERIF@", VERIF)
            _write_if_changed(os.path.join(dst, "Cargo.toml"), txt)
        elif os.path.isdir(s):
            _sync_dir(s, d)
        else:
            _write_if_changed(d, open(s).read())
    for rel, txt in (extra_files or {}).items():
        p = os.path.join(dst, rel)
        os.makedirs(os.path.dirname(p), exist_ok=True)
        _write_if_changed(p, txt)
    lock = os.path.join(REPO, "Cargo.lock")
    if os.path.exists(lock) and not os.path.exists(os.path.join(dst, "Cargo.lock")):
        shutil.copy(lock, os.path.join(dst, "Cargo.lock"))
    shutil.rmtree(os.path.join(dst, "result_output_dir"), ignore_errors=True)
    return dst


def _write_if_changed(path, txt):
    try:
        if open(path).read() == txt:
            return
    except OSError:
        pass
    with open(path, "w") as f:
        f.write(txt)


def _sync_dir(s, d):
    os.makedirs(d, exist_ok=True)
    names = set(os.listdir(s))
    for n in os.listdir(d):
        if n not in names:
            p = os.path.join(d, n)
            if os.path.isdir(p):
                shutil.rmtree(p)
            else:
                os.remove(p)
    for n in names:
        sp, dp = os.path.join(s, n), os.path.join(d, n)
        if os.path.isdir(sp):
            _sync_dir(sp, dp)
        else:
            _write_if_changed(dp, open(sp).read())


def _env():
    e = dict(os.environ)
    e["CARGO_NET_OFFLINE"] = "true"
    e.pop("RUSTUP_TOOLCHAIN", None)
    e["CARGO_TERM_COLOR"] = "never"
    return e


CHECK_RE = re.compile(r"^Check (\d+): (\S.*)$")


def parse_harness_output(txt):
    r = {"status": None, "checks": 0, "failed": [], "covers_sat": 0, "covers_total": 0, "time_s": 0.0,
         "unreachable": 0, "undetermined": 0, "cover_unsat": []}
    cur = None
    for ln in txt.split("\n"):
        m = CHECK_RE.match(ln)
        if m:
            cur = {"name": m.group(2), "status": None, "desc": "", "loc": ""}
            continue
        s = ln.strip()
        if cur is not None:
            if s.startswith("- Status:"):
                cur["status"] = s.split(":", 1)[1].strip()
            elif s.startswith("- Description:"):
                cur["desc"] = s.split(":", 1)[1].strip().strip('"')
            elif s.startswith("- Location:"):
                cur["loc"] = s.split(":", 1)[1].strip()
                # record
                if ".cover." in cur["name"] or cur["status"] in ("SATISFIED", "UNSATISFIABLE"):
                    r["covers_total"] += 1
                    if cur["status"] == "SATISFIED":
                        r["covers_sat"] += 1
                    else:
                        r["cover_unsat"].append(cur["desc"])
                else:
                    r["checks"] += 1
                    if cur["status"] == "FAILURE":
                        r["failed"].append(cur)
                    elif cur["status"] == "UNREACHABLE":
                        r["unreachable"] += 1
                    elif cur["status"] == "UNDETERMINED":
                        r["undetermined"] += 1
                cur = None
        if s.startswith("VERIFICATION:-"):
            r["status"] = s.split(":-")[1].strip()
        m = re.match(r"Verification Time: ([0-9.]+)s", s)
        if m:
            r["time_s"] = float(m.group(1))
        if "CBMC timed out" in s or "timed out" in s.lower() and "harness" in s.lower():
            r["timeout"] = True
        if "out of memory" in s.lower() or "std::bad_alloc" in s:
            r["oom"] = True
    return r


def run(prop_id, crate, filters, jobs=16, harness_timeout=900, extra_args=None, extra_files=None,
        total_timeout=3600, exact=False):
    """Returns dict(build_ok, harnesses{name: result}, log, cmd, wall_s)."""
    ws = prepare_ws(prop_id, crate, extra_files)
    cmd = ["cargo", "kani", "-j", str(jobs), "--output-format", "terse", "--output-into-files",
           "-Z", "unstable-options", "--harness-timeout", "%ds" % harness_timeout]
    if extra_args:
        cmd += extra_args
    for f in filters:
        cmd += ["--harness", f]
    if exact:
        cmd += ["--exact"]
    t0 = time.time()
    try:
        p = subprocess.run(cmd, cwd=ws, env=_env(), capture_output=True, text=True, timeout=total_timeout)
        out = p.stdout + "\n" + p.stderr
        rc = p.returncode
    except subprocess.TimeoutExpired as e:
        out = (e.stdout or b"").decode(errors="replace") if isinstance(e.stdout, bytes) else (e.stdout or "")
        out += "\n[kani_run] total timeout after %ds" % total_timeout
        rc = -9
    wall = time.time() - t0
    res = {"build_ok": True, "harnesses": {}, "cmd": " ".join(cmd), "wall_s": wall, "rc": rc, "ws": ws,
           "log_tail": out[-6000:]}
    if re.search(r"error(\[E\d+\])?:", out) and "Checking harness" not in out:
        res["build_ok"] = False
        return res
    started = re.findall(r"Checking harness (\S+?)\.\.\.", out)
    outdir = os.path.join(ws, "result_output_dir")
    for h in started:
        fp = os.path.join(outdir, h)
        if os.path.exists(fp):
            r = parse_harness_output(open(fp, errors="replace").read())
        else:
            r = {"status": None, "checks": 0, "failed": [], "covers_sat": 0, "covers_total": 0, "time_s": 0,
                 "missing_output": True}
        res["harnesses"][h] = r
    if not started:
        res["build_ok"] = False if rc != 0 else True
    return res


PLAYBACK_VAL_RE = re.compile(r"^\s*//\s*(.+)$")


def concrete_playback(prop_id, crate, harness, harness_timeout=900, extra_args=None, extra_files=None):
    """Re-run one failing harness with concrete playback; returns dict(values[], test_src, raw)."""
    ws = prepare_ws(prop_id, crate, extra_files)
    cmd = ["cargo", "kani", "-Z", "concrete-playback", "--concrete-playback=print", "--harness", harness,
           "--exact", "-Z", "unstable-options", "--harness-timeout", "%ds" % harness_timeout]
    if extra_args:
        cmd += extra_args
    try:
        p = subprocess.run(cmd, cwd=ws, env=_env(), capture_output=True, text=True, timeout=harness_timeout + 300)
    except subprocess.TimeoutExpired:
        return {"values": [], "test_src": None, "note": "playback run timed out"}
    out = p.stdout
    m = re.search(r"```\s*\n(.*?)```", out, re.S)
    test_src = m.group(1) if m else None
    vals = []
    if test_src:
        for ln in test_src.split("\n"):
            mm = re.match(r"^\s*//(?!/)\s*(.+)$", ln)
            if mm:
                vals.append(mm.group(1).strip())
    failed = []
    for mm in re.finditer(r"Failed Checks: (.*)\n\s*File: \"([^\"]*)\", line (\d+)", out):
        failed.append({"desc": mm.group(1), "file": mm.group(2), "line": int(mm.group(3))})
    return {"values": vals, "test_src": test_src, "failed": failed, "cmd": " ".join(cmd)}


def native_playback(prop_id, crate, harness, test_src, extra_files=None, timeout=600):
    """Run the counterexample natively against the real code: the playback test Kani printed is
    added to the harness crate copy and executed with `cargo kani playback`."""
    if not test_src:
        return {"ran": False, "note": "no concrete values"}
    ws = prepare_ws(prop_id, crate, extra_files)
    lib = os.path.join(ws, "src", "lib.rs")
    src = open(lib).read()
    mm = re.search(r"fn (kani_concrete_playback_\w+)", test_src)
    tname = mm.group(1) if mm else "kani_concrete_playback"
    # the printed test calls the harness by bare name; harnesses live in `mod proofs`
    body = test_src.replace("#[test]", "#[test]\n#[allow(unused)]")
    inject = "\n#[cfg(kani)]\nmod verif_playback {\n    #[allow(unused_imports)] use super::proofs::*;\n" + body + "\n}\n"
    with open(lib, "w") as f:
        f.write(src + inject)
    cmd = ["cargo", "kani", "playback", "-Z", "concrete-playback", "--", tname, "--nocapture"]
    try:
        p = subprocess.run(cmd, cwd=ws, env=_env(), capture_output=True, text=True, timeout=timeout)
        out = (p.stdout + "\n" + p.stderr)
        rc = p.returncode
    except subprocess.TimeoutExpired:
        out, rc = "native playback timed out", -9
    finally:
        with open(lib, "w") as f:
            f.write(src)
    panic = re.findall(r"panicked at ([^\n]*)\n([^\n]*)", out)
    return {"ran": True, "rc": rc, "cmd": " ".join(cmd), "panics": [" ".join(x) for x in panic][:5],
            "reproduced": rc != 0 and ("panicked" in out or "FAILED" in out), "tail": out[-2500:]}

"""Rust-aware lexical scanner used by the extractor.

Nothing here parses Rust fully.  It produces a *code mask* (which characters are code as opposed to
comment / string / char literal), and on top of it: brace matching, item location by path, function
splitting (attributes / signature / body) and loop-header location.  Everything that cannot be
located unambiguously raises AnchorLost, which the runner turns into exit 2 (undecided), never into
a violation.
"""
import re


class AnchorLost(Exception):
    pass


class Unsupported(Exception):
    pass


def code_mask(src):
    """Return a bytearray m with m[i]=1 iff src[i] is code (not comment, not inside a string/char
    literal).  Delimiters of strings/chars are marked 0 as well, so braces in them never count."""
    n = len(src)
    m = bytearray(b"\x01") * n
    i = 0
    while i < n:
        c = src[i]
        if c == "/" and i + 1 < n and src[i + 1] == "/":
            j = src.find("\n", i)
            if j < 0:
                j = n
            for k in range(i, j):
                m[k] = 0
            i = j
        elif c == "/" and i + 1 < n and src[i + 1] == "*":
            depth = 1
            j = i + 2
            while j < n and depth > 0:
                if src.startswith("/*", j):
                    depth += 1
                    j += 2
                elif src.startswith("*/", j):
                    depth -= 1
                    j += 2
                else:
                    j += 1
            for k in range(i, j):
                m[k] = 0
            i = j
        elif c == '"' or (c in "br" and _raw_or_byte_string_start(src, i)):
            j = _skip_string(src, i)
            for k in range(i, j):
                m[k] = 0
            i = j
        elif c == "'":
            j = _skip_char_or_lifetime(src, i)
            if j is not None:
                for k in range(i, j):
                    m[k] = 0
                i = j
            else:
                i += 1
        else:
            i += 1
    return m


def _raw_or_byte_string_start(src, i):
    # b"..", br"..", r"..", r#".."#, b'x' handled elsewhere; c"..".  Must not be part of an identifier.
    if i > 0 and (src[i - 1].isalnum() or src[i - 1] == "_"):
        return False
    mm = re.match(r'(?:b|c)?r#*"|(?:b|c)"', src[i:i + 12])
    return mm is not None


def _skip_string(src, i):
    n = len(src)
    mm = re.match(r'(?:b|c)?(r)(#*)"', src[i:i + 40])
    if mm:
        hashes = mm.group(2)
        start = i + mm.end()
        end = src.find('"' + hashes, start)
        if end < 0:
            return n
        return end + 1 + len(hashes)
    # normal (maybe b"/c" prefixed)
    j = src.index('"', i) + 1
    while j < n:
        if src[j] == "\\":
            j += 2
        elif src[j] == '"':
            return j + 1
        else:
            j += 1
    return n


def _skip_char_or_lifetime(src, i):
    # src[i] == "'"
    n = len(src)
    if i + 1 >= n:
        return None
    if src[i + 1] == "\\":
        j = i + 2
        while j < n and src[j] != "'":
            j += 1
        return j + 1
    # 'x' is a char literal iff the char after next is a quote
    if i + 2 < n and src[i + 2] == "'":
        return i + 3
    return None  # lifetime


def match_brace(src, mask, open_pos, open_ch="{", close_ch="}"):
    assert src[open_pos] == open_ch, (src[open_pos - 10:open_pos + 10], open_ch)
    depth = 0
    for i in range(open_pos, len(src)):
        if not mask[i]:
            continue
        c = src[i]
        if c == open_ch:
            depth += 1
        elif c == close_ch:
            depth -= 1
            if depth == 0:
                return i
    raise AnchorLost("unbalanced %s at offset %d" % (open_ch, open_pos))


def _norm_ws(s):
    return re.sub(r"\s+", " ", s).strip()


def _find_kw(src, mask, kw, start, end):
    """Yield positions of keyword kw (word boundary, in code) within [start,end)."""
    pat = re.compile(r"\b" + re.escape(kw) + r"\b")
    pos = start
    while True:
        mm = pat.search(src, pos, end)
        if not mm:
            return
        if mask[mm.start()]:
            yield mm.start()
        pos = mm.end()


def _next_code_char(src, mask, chars, start, end):
    """First position >= start where a code char in `chars` occurs at bracket depth 0 for ([<-less."""
    depth = 0
    i = start
    while i < end:
        if mask[i]:
            c = src[i]
            if c in "([":
                depth += 1
            elif c in ")]":
                depth -= 1
            elif depth == 0 and c in chars:
                return i
        i += 1
    return -1


def top_level_blocks(src, mask, start, end):
    """Yield (header_start, open_brace, close_brace) for each `{...}` block directly in [start,end)."""
    i = start
    hdr = start
    while i < end:
        if mask[i]:
            c = src[i]
            if c == "{":
                close = match_brace(src, mask, i)
                yield hdr, i, close
                i = close + 1
                hdr = i
                continue
            if c == ";":
                hdr = i + 1
        i += 1


def find_scopes(src, mask, scope, start=0, end=None):
    """All `impl ...`/`trait ...`/`mod ...` blocks whose normalised header equals `scope`
    (attributes, visibility and `unsafe` ignored) — list of (open_brace, close_brace)."""
    if end is None:
        end = len(src)
    want = _norm_ws(scope)
    found = []
    for hdr, ob, cb in _all_blocks_with_headers(src, mask, start, end):
        h = _norm_ws(_strip_noncode(src, mask, hdr, ob))
        # cut leading attributes / visibility
        h2 = re.sub(r"^(?:#!?\[[^\]]*\]\s*)*", "", h)
        h2 = re.sub(r"^(?:pub(?:\([^)]*\))?\s+)?(?:unsafe\s+)?", "", h2)
        if h2 == want or h2.startswith(want + " where") or h2.startswith(want + " :"):
            found.append((ob, cb))
    return found


def find_scope(src, mask, scope, start=0, end=None):
    found = find_scopes(src, mask, scope, start, end)
    if len(found) != 1:
        raise AnchorLost("scope `%s`: %d matches" % (scope, len(found)))
    return found[0]


def _strip_noncode(src, mask, a, b):
    return "".join(src[i] if mask[i] else " " for i in range(a, b))


def _all_blocks_with_headers(src, mask, start, end):
    """Blocks at top level and nested inside `mod` blocks (one level of recursion per mod)."""
    for hdr, ob, cb in top_level_blocks(src, mask, start, end):
        yield hdr, ob, cb
        h = _norm_ws(_strip_noncode(src, mask, hdr, ob))
        if re.search(r"\bmod\s+\w+$", h):
            for x in _all_blocks_with_headers(src, mask, ob + 1, cb):
                yield x


class FnItem:
    __slots__ = ("name", "attrs_start", "sig_start", "body_open", "body_close", "src", "mask",
                 "file", "cfgs")

    def line_of(self, pos):
        return self.src.count("\n", 0, pos) + 1

    @property
    def signature(self):
        return self.src[self.sig_start:self.body_open]

    @property
    def body(self):
        """Text strictly between the braces."""
        return self.src[self.body_open + 1:self.body_close]

    @property
    def attrs(self):
        return self.src[self.attrs_start:self.sig_start]


def find_fn(src, mask, name, start=0, end=None, file="?", cfg_pick=None):
    """Find `fn name` directly inside [start,end) (not nested in another block).  If several
    candidates exist (cfg variants), cfg_pick (substring of the attribute text) selects one."""
    if end is None:
        end = len(src)
    cands = []
    for hdr, ob, cb in top_level_blocks(src, mask, start, end):
        h = _strip_noncode(src, mask, hdr, ob)
        mm = re.search(r"\bfn\s+" + re.escape(name) + r"\b", h)
        if not mm:
            continue
        # signature starts at the first qualifier token before `fn`, after attributes
        code_h = h
        # find start of signature: skip whitespace and attributes
        pos = 0
        attrs_start = None
        while True:
            ws = re.match(r"\s*", code_h[pos:]).end()
            pos += ws
            if attrs_start is None:
                attrs_start = pos
            if code_h.startswith("#[", pos) or code_h.startswith("#![", pos):
                br = code_h.index("[", pos)
                close = match_brace(src, mask, hdr + br, "[", "]")
                pos = close - hdr + 1
                continue
            break
        sig_start = hdr + pos
        # include preceding doc comments into attrs span (they are non-code, so scan raw text)
        a = hdr
        it = FnItem()
        it.name = name
        it.attrs_start = a
        it.sig_start = sig_start
        it.body_open = ob
        it.body_close = cb
        it.src = src
        it.mask = mask
        it.file = file
        cands.append(it)
    if cfg_pick is not None:
        cands = [c for c in cands if cfg_pick in _norm_ws(c.attrs)]
    if len(cands) != 1:
        raise AnchorLost("fn `%s` in %s: %d candidates" % (name, file, len(cands)))
    return cands[0]


def locate(src, path, file="?", cfg_pick=None):
    """path: 'fn_name' or 'scope header ::> fn_name' or 'scope ::> scope ::> fn_name'.  A scope header
    may occur several times (e.g. two `impl T` blocks); the function must then be found in exactly one."""
    mask = code_mask(src)
    parts = [p.strip() for p in path.split("::>")]
    regions = [(0, len(src))]
    for sc in parts[:-1]:
        nxt = []
        for (start, end) in regions:
            if sc.startswith("fn "):
                # a function body as scope (nested fn items)
                try:
                    outer = find_fn(src, mask, sc[3:].strip(), start, end, file=file)
                    nxt.append((outer.body_open + 1, outer.body_close))
                except AnchorLost as e:
                    if "0 candidates" not in str(e):
                        raise
                continue
            for ob, cb in find_scopes(src, mask, sc, start, end):
                nxt.append((ob + 1, cb))
        if not nxt:
            raise AnchorLost("scope `%s` not found in %s" % (sc, file))
        regions = nxt
    name = parts[-1]
    if name.startswith("fn "):
        name = name[3:].strip()
    hits = []
    for (start, end) in regions:
        try:
            hits.append(find_fn(src, mask, name, start, end, file=file, cfg_pick=cfg_pick))
        except AnchorLost as e:
            if "0 candidates" not in str(e):
                raise
    if len(hits) != 1:
        raise AnchorLost("fn `%s` in %s: %d candidates over %d scope blocks" % (name, file, len(hits), len(regions)))
    return hits[0]


LOOP_KW = ("for", "while", "loop")


def find_loops(text):
    """Loops of a function body in source order: list of (kw, kw_pos, open_brace_pos, close_pos)."""
    mask = code_mask(text)
    out = []
    pat = re.compile(r"\b(for|while|loop)\b")
    pos = 0
    while True:
        mm = pat.search(text, pos)
        if not mm:
            break
        pos = mm.end()
        if not mask[mm.start()]:
            continue
        kw = mm.group(1)
        # `for<'a>` (HRTB) or `impl X for Y` cannot occur as a statement start in the bodies we
        # handle, but be safe: HRTB is followed by '<'
        rest = text[mm.end():mm.end() + 1]
        if kw == "for" and rest == "<":
            continue
        # a label `'a: loop` is fine.  Find the block's `{` at paren depth 0.
        ob = _next_code_char(text, mask, "{", mm.end(), len(text))
        if ob < 0:
            raise AnchorLost("loop header without block")
        if kw == "loop" and text[mm.end():ob].strip() != "":
            raise Unsupported("`loop` followed by tokens before `{`")
        cb = match_brace(text, mask, ob)
        out.append((kw, mm.start(), ob, cb))
    return out


def strip_comments(text):
    """Remove // and /* */ comments (keep newlines so line numbers are preserved)."""
    n = len(text)
    m = code_mask(text)
    out = []
    i = 0
    while i < n:
        if not m[i] and (text.startswith("//", i) or text.startswith("/*", i)):
            # comment region: run until mask is 1 again or a string starts; comments and strings
            # are both 0 in the mask, so walk the comment explicitly
            if text.startswith("//", i):
                j = text.find("\n", i)
                if j < 0:
                    j = n
                i = j
            else:
                depth = 1
                j = i + 2
                while j < n and depth > 0:
                    if text.startswith("/*", j):
                        depth += 1
                        j += 2
                    elif text.startswith("*/", j):
                        depth -= 1
                        j += 2
                    else:
                        if text[j] == "\n":
                            out.append("\n")
                        j += 1
                i = j
        elif not m[i]:
            # string or char literal: copy verbatim up to where mask turns 1
            j = i
            while j < n and not m[j] and not (text.startswith("//", j) and _is_comment_start(text, m, j)):
                j += 1
            out.append(text[i:j])
            i = j
        else:
            out.append(text[i])
            i += 1
    return "".join(out)


def _is_comment_start(text, m, j):
    return False

#!/usr/bin/env python3
"""check.py <Cxx> [--tier quick|thorough] [--replay <file>]

Decides one property: extracts the unit(s) from /repo's working tree, runs Verus and Kani, names
failed obligations, replays counterexamples on the real code, writes evidence/<Cxx>.json.

exit 0  every obligation discharged (or only listed known findings failed)
exit 1  + `VIOLATION property=<id> replay=<path>` for each failed obligation not listed as known
exit 2  undecided for infrastructure reasons (anchor lost, unsupported construct, tool limits) — never an alarm
"""
import argparse
import hashlib
import json
import os
import re
import sys
import time
import tomllib

HERE = os.path.dirname(os.path.abspath(__file__))
sys.path.insert(0, HERE)
VERIF = os.path.dirname(HERE)

import extract  # noqa: E402
import kani_run  # noqa: E402
import verus_run  # noqa: E402
from rustscan import AnchorLost, Unsupported  # noqa: E402

REPO = os.environ.get("VERIF_REPO", "/repo")


def log(*a):
    print(*a, flush=True)


def load_known(prop):
    known, fixed = [], []
    p = os.path.join(VERIF, "KNOWN_FINDINGS.txt")
    if os.path.exists(p):
        for ln in open(p):
            ln = ln.strip()
            if not ln or ln.startswith("#"):
                continue
            if ln.startswith("known:"):
                m = re.match(r"known:\s*property=(\S+)\s+obligation=(.+?)\s+::\s*(.*)$", ln)
                if m and m.group(1) == prop:
                    known.append({"obligation": m.group(2).strip(), "what": m.group(3)})
            elif ln.startswith("fixed:"):
                fixed.append(ln)
    return known, fixed


def sanitize(s):
    h = hashlib.sha1(s.encode()).hexdigest()[:8]
    t = re.sub(r"[^A-Za-z0-9_.-]+", "_", s)[:90].strip("_")
    return "%s-%s" % (t, h)


def enclosing_fn(gen_lines, line):
    pat = re.compile(r"^\s*(?:pub(?:\([^)]*\))?\s+)?(?:(?:open|closed|broadcast|uninterp)\s+)*(?:proof\s+|spec\s+|exec\s+|const\s+|unsafe\s+)*fn\s+(\w+)")
    for i in range(min(line, len(gen_lines)) - 1, -1, -1):
        m = pat.match(gen_lines[i])
        if m:
            return m.group(1)
    return None


class Outcome:
    def __init__(self, prop, tier):
        self.prop = prop
        self.tier = tier
        self.infra = []          # strings -> exit 2
        self.failed = []         # dicts {name, backend, detail, replay{}}
        self.obligations = 0
        self.discharged = 0
        self.by_backend = {}
        self.functions = []
        self.samples = []
        self.assumptions = []
        self.trusted = []
        self.bounded = []
        self.rules = {}
        self.solver_ms = {"verus_smt_ms": 0, "kani_verification_s": 0.0}
        self.checker_cmds = []
        self.canaries = {"expected": 0, "failed_as_expected": 0}
        self.kani_covers = {"sat": 0, "total": 0}
        self.dropped = []
        self.generator_info = None
        self.native_witnesses = None


def run_verus_unit(plan, u, out, tier):
    prop = plan["id"]
    tmpl = os.path.join(VERIF, "contracts", prop, u["template"])
    bdir = os.path.join(VERIF, "build", prop if REPO == "/repo" else "scratch_" + prop)
    os.makedirs(bdir, exist_ok=True)
    unit = u["unit"]
    try:
        ex = extract.render(tmpl, repo=REPO)
    except (AnchorLost, Unsupported) as e:
        out.infra.append("verus unit %s: %s: %s" % (unit, type(e).__name__, e))
        return
    gen = os.path.join(bdir, unit + ".rs")
    with open(gen, "w") as f:
        f.write(ex.text)
    gen_lines = ex.text.split("\n")
    r = verus_run.run_verus(gen, ex.linemap, multiple_errors=u.get("multiple_errors", 20),
                            rlimit=u.get("rlimit"), extra=u.get("extra_args"), timeout=u.get("timeout", 900))
    out.checker_cmds.append("(cd build/%s && %s)" % (prop, r["cmd"]))
    out.solver_ms["verus_smt_ms"] += r.get("smt_ms", 0)
    for fi in ex.functions:
        out.functions.append({"unit": unit, "backend": "verus", **{k: fi[k] for k in
                              ("name", "source_fn", "file", "line_start", "line_end", "sha256", "loops")}})
        for d in fi["dropped"]:
            out.dropped.append("%s: %s" % (fi["name"], d))
    for k, v in ex.rule_counts.items():
        out.rules["%s:%s" % (unit, k)] = v
    out.assumptions.extend("%s %s" % (unit, a) for a in ex.assumption_scan)
    for m in r["infra"]:
        out.infra.append("verus unit %s: %s" % (unit, m))
    canary_names = set(re.findall(r"fn\s+(canary_\w+)", ex.text))
    out.canaries["expected"] += len(canary_names)
    canary_hit = set()
    real_failures = []
    for f in r["failures"]:
        o = f.get("origin", {})
        efn = f.get("fn")
        if o.get("k") == "const":
            efn = o.get("fn")
            f["fn"] = efn
        elif o.get("k") == "template" or efn is None:
            efn = enclosing_fn(gen_lines, f.get("gen_line", 0))
            f["fn"] = efn
        if efn and efn.startswith("canary_"):
            if f["kind"] == "assertion" and f.get("expr", "").replace(" ", "") in ("false", "assert(false)"):
                canary_hit.add(efn)
            else:
                out.infra.append("verus unit %s: canary %s failed with %s[%s] instead of its assert(false)" %
                                 (unit, efn, f["kind"], f.get("expr")))
            continue
        real_failures.append(f)
    for c in canary_names - canary_hit:
        if r["infra"] or r.get("ok") is None:
            continue
        out.infra.append("verus unit %s: vacuity canary %s verified (contradictory contract or dead verifier)" % (unit, c))
    out.canaries["failed_as_expected"] += len(canary_hit)
    n_units = r["verified"] + r["errors"] - len(canary_names)
    failed_fns = set()
    for f in real_failures:
        name = verus_run.obligation_name(unit, f)
        failed_fns.add(f.get("fn"))
        out.failed.append({"name": name, "backend": "verus", "fn": f.get("fn"), "kind": f["kind"],
                           "detail": f["rendered"], "origin": f.get("origin"), "expr": f.get("expr")})
    errs_noncanary = r["errors"] - len(canary_hit)
    if not r["infra"]:
        if n_units < u.get("min_verified", 1):
            out.infra.append("verus unit %s: only %d verification units (< %d recorded): obligations vanished" %
                             (unit, n_units, u.get("min_verified", 1)))
        out.obligations += n_units
        out.discharged += n_units - max(errs_noncanary, 0)
        b = out.by_backend.setdefault("verus(z3)", {"obligations": 0, "discharged": 0, "unit": "functions/lemmas verified"})
        b["obligations"] += n_units
        b["discharged"] += n_units - max(errs_noncanary, 0)
        if errs_noncanary > 0 and not real_failures:
            out.infra.append("verus unit %s: %d failing units without a named obligation" % (unit, errs_noncanary))
    # samples: a few contract clauses actually checked
    for fi in ex.functions[:3]:
        out.samples.append({"backend": "verus", "function": fi["name"], "source": "%s:%d-%d" %
                            (fi["file"], fi["line_start"], fi["line_end"]), "sha256": fi["sha256"][:16]})
    for t, o in zip(gen_lines, ex.linemap):
        if o.get("k") == "contract" and o.get("sec") == "spec" and len(out.samples) < 8 and "==" in t:
            out.samples.append({"backend": "verus", "obligation": "%s: %s" % (o["fn"], t.strip())})


def run_kani_unit(plan, k, out, tier):
    prop = plan["id"]
    filters = k.get(tier) or k.get("quick")
    if not filters:
        return
    bounded = k.get("bounded", {})
    jobs = k.get("jobs", 16)
    ht = k.get("harness_timeout_thorough" if tier == "thorough" else "harness_timeout", 900)
    extra_files = {}
    if k.get("generator"):
        import importlib.util
        spec = importlib.util.spec_from_file_location("gen_" + prop, os.path.join(VERIF, "contracts", prop, k["generator"]))
        mod = importlib.util.module_from_spec(spec)
        spec.loader.exec_module(mod)
        try:
            files, info, problems = mod.generate(REPO)
        except (AnchorLost, Unsupported, OSError) as e:
            out.infra.append("kani generator %s: %s" % (k["generator"], e))
            return
        extra_files.update(files)
        out.generator_info = info
        for pmsg in problems:
            out.infra.append("kani generator %s: %s" % (k["generator"], pmsg))
    k["_extra_files"] = extra_files
    r = kani_run.run(prop, k["crate"], filters, jobs=jobs, harness_timeout=ht,
                     extra_args=k.get("extra_args"), extra_files=extra_files,
                     total_timeout=k.get("total_timeout", 5400))
    out.checker_cmds.append("(cd build/%s/kani-%s && CARGO_NET_OFFLINE=true %s)" % (prop, k["crate"], r["cmd"]))
    if not r["build_ok"]:
        out.infra.append("kani crate %s did not build/run: %s" % (k["crate"], r["log_tail"][-1500:]))
        return
    hs = r["harnesses"]
    if len(hs) < k.get("min_harnesses_" + tier, k.get("min_harnesses", 1)):
        out.infra.append("kani crate %s: %d harnesses ran, expected at least %d" %
                         (k["crate"], len(hs), k.get("min_harnesses_" + tier, k.get("min_harnesses", 1))))
    b = out.by_backend.setdefault("kani(cbmc+cadical)", {"obligations": 0, "discharged": 0,
                                                         "unit": "CBMC checks in loop-free/full-domain harnesses"})
    for h, hr in sorted(hs.items()):
        short = h.split("::")[-1]
        out.solver_ms["kani_verification_s"] += hr.get("time_s", 0)
        out.kani_covers["sat"] += hr.get("covers_sat", 0)
        out.kani_covers["total"] += hr.get("covers_total", 0)
        is_bounded = None
        for pat, why in bounded.items():
            if re.fullmatch(pat, short):
                is_bounded = why
        if hr.get("status") is None or hr.get("timeout") or hr.get("oom") or hr.get("missing_output"):
            out.infra.append("kani harness %s: no verdict (timeout/oom/crash)" % short)
            continue
        if hr.get("undetermined"):
            # undetermined checks come with an unwinding failure (reported as a failed check) or a tool limit
            pass
        if hr.get("cover_unsat"):
            out.infra.append("kani harness %s: vacuous — cover unsatisfiable: %s" % (short, hr["cover_unsat"]))
        nchecks = hr["checks"]
        nfail = len(hr["failed"])
        rec = {"harness": short, "checks": nchecks, "failed": nfail, "time_s": hr.get("time_s", 0),
               "covers": "%d/%d" % (hr.get("covers_sat", 0), hr.get("covers_total", 0))}
        if is_bounded:
            rec["bound"] = is_bounded
            out.bounded.append(rec)
        else:
            out.obligations += nchecks
            out.discharged += nchecks - nfail
            b["obligations"] += nchecks
            b["discharged"] += nchecks - nfail
            if len(out.samples) < 14:
                out.samples.append({"backend": "kani", **rec})
        if hr["status"] == "FAILED" and nfail == 0:
            out.infra.append("kani harness %s: FAILED without a failed check (tool limit?)" % short)
        # group failed checks into obligations: harness + description (user assertion message or panic kind)
        seen = set()
        # Observed once (DESIGN 9.5): for one scratch checkout path the `start`-feature exec harness reported pointer
        # failures only inside liballoc/libcore (Vec::push, ptr::read) together with an unreachable cover, while the
        # identical tree under other paths passes.  A harness whose cover is unreachable never got to the code under
        # test; if in addition every failed check lies in the standard library, nothing is known about the
        # repository's code: undecided, not a violation.  Failures located in repository or harness code stay violations.
        if hr.get("cover_unsat") and hr["failed"] and all(("/rustlib/src/rust/library/" in (fc.get("loc") or "") or (fc.get("loc") or "").startswith("library/kani/")) for fc in hr["failed"]):
            out.infra.append("kani harness %s: %d failed checks, all inside the standard library, with an unreachable cover: "
                             "the harness never reached the code under test (tool artifact) — undecided" % (short, len(hr["failed"])))
            continue
        for fc in hr["failed"]:
            desc = fc["desc"]
            if "not currently supported" in desc or "is not supported" in desc or "unsupported" in desc.lower():
                out.infra.append("kani harness %s: construct outside Kani's subset: %s" % (short, desc[:160]))
                continue
            if "unwinding assertion" in desc:
                out.infra.append("kani harness %s: unwinding bound too small (%s)" % (short, fc["loc"]))
                continue
            key = "kani:%s:%s" % (short, desc[:90])
            if key in seen:
                continue
            seen.add(key)
            out.failed.append({"name": key, "backend": "kani", "harness": h, "crate": k["crate"],
                               "detail": "%s\n  at %s\n  check %s" % (desc, fc["loc"], fc["name"]),
                               "bounded": is_bounded, "extra_args": k.get("extra_args"), "harness_timeout": ht,
                               "extra_files": extra_files})


def attach_replays(plan, out):
    """Concrete playback for failed Kani obligations; Verus failures borrow their Kani twin's."""
    prop = plan["id"]
    twins = plan.get("twins", {})
    playback_cache = {}

    def playback(crate, harness, extra_args, ht, extra_files=None):
        key = (crate, harness)
        if key not in playback_cache:
            pb = kani_run.concrete_playback(prop, crate, harness, harness_timeout=ht, extra_args=extra_args,
                                            extra_files=extra_files)
            nat = kani_run.native_playback(prop, crate, harness, pb.get("test_src"), extra_files=extra_files) if pb.get("test_src") else \
                {"ran": False, "note": "Kani printed no concrete values"}
            playback_cache[key] = (pb, nat)
        return playback_cache[key]

    kani_failed = {}
    for f in out.failed:
        if f["backend"] == "kani":
            kani_failed.setdefault(f["harness"].split("::")[-1], f)
    budget = int(os.environ.get("VERIF_MAX_REPLAYS", "4"))
    for f in out.failed:
        if f.get("known"):
            continue
        rep = {"property": prop, "obligation": f["name"], "backend": f["backend"], "verifier_output": f["detail"]}
        src = None
        if f["backend"] == "kani":
            src = f
        else:
            for t in twins.get(f.get("fn") or "", []):
                if t in kani_failed:
                    src = kani_failed[t]
                    rep["kani_twin"] = t
                    break
        nw = getattr(out, "native_witnesses", None)
        if src is None and nw and nw.get("inputs"):
            # no model from the verifier, but a native search on the real functions found failing inputs
            rep["counterexample"] = {"found_by": "native companion (bounded search, not the verifier)", "inputs": nw["inputs"],
                                     "oracle": nw["what"]}
            rep["replay_on_real_code"] = {"ran": True, "failed": True, "cmd": nw["cmd"]}
            f["has_input"] = True
        elif src is not None and ((src["crate"], src["harness"]) in playback_cache or budget > 0):
            if (src["crate"], src["harness"]) not in playback_cache:
                budget -= 1
            pb, nat = playback(src["crate"], src["harness"], src.get("extra_args"), src.get("harness_timeout", 900),
                               src.get("extra_files"))
            rep["counterexample"] = {"harness": src["harness"], "values_in_order_of_kani_any": pb.get("values"),
                                     "kani_failed_checks": pb.get("failed"), "playback_test": pb.get("test_src")}
            rep["replay_on_real_code"] = nat
            f["has_input"] = bool(pb.get("values"))
        else:
            f["has_input"] = False
            rep["counterexample"] = None
            rep["note"] = "no-failing-input-found: the verifier gives no model for this obligation and no Kani twin failed"
        f["replay"] = rep


def write_evidence(plan, out, tier, wall, seed, violations, known_hit):
    prop = plan["id"]
    level = plan.get("level", "proof")
    cov = {
        "obligations": out.obligations,
        "discharged": out.discharged,
        "checker_cmd": " ; ".join(out.checker_cmds) or "none",
        "trusted_base": plan.get("trusted_base", []),
        "by_backend": out.by_backend,
        "functions_under_contract": out.functions,
        "bounded_parts_not_counted_as_proved": out.bounded,
        "extraction": {"rewrite_rules_applied": out.rules, "dropped": sorted(set(out.dropped))},
        "vacuity": {"verus_canaries_expected_to_fail": out.canaries["expected"],
                    "verus_canaries_failed_as_expected": out.canaries["failed_as_expected"],
                    "kani_cover_properties_satisfied": "%d/%d" % (out.kani_covers["sat"], out.kani_covers["total"])},
        "solver_time": out.solver_ms,
        "samples": out.samples[:16] or [{"note": "no obligations ran"}],
        "failed_obligations": [f["name"] for f in out.failed],
        "known_findings_hit": known_hit,
        "infrastructure_problems": out.infra,
        "explanation": plan.get("explanation", ""),
        "generator": out.generator_info,
        # generic keys as well, so that the file validates whichever way it is read
        "evaluations": out.obligations + sum(b["checks"] for b in out.bounded),
        "distinct_nontrivial": out.obligations + sum(b["checks"] for b in out.bounded),
        "rule": "one case = one proof obligation (a verified Verus function/lemma, or one CBMC check of a Kani "
                "harness); non-trivial = generated from a contract clause, body safety condition or harness assertion",
    }
    ev = {
        "property_id": prop,
        "tier": tier,
        "seed": seed,
        "level": level,
        "coverage": cov,
        "assumptions": plan.get("assumptions", []) + ["scan: " + a for a in out.assumptions],
        "wall_s": round(wall, 2),
        "violations": violations,
    }
    # runs against a scratch copy (VERIF_REPO set) never touch the committed evidence
    evdir = os.path.join(VERIF, "evidence") if REPO == "/repo" else os.path.join(VERIF, "build", "scratch_evidence")
    os.makedirs(evdir, exist_ok=True)
    with open(os.path.join(evdir, prop + ".json"), "w") as f:
        json.dump(ev, f, indent=1)


def main():
    ap = argparse.ArgumentParser()
    ap.add_argument("prop")
    ap.add_argument("--tier", default=os.environ.get("VERIF_TIER", "quick"), choices=["quick", "thorough"])
    ap.add_argument("--replay", default=None)
    ap.add_argument("--no-replay", action="store_true")
    args = ap.parse_args()
    prop = args.prop
    seed = int(os.environ.get("VERIF_SEED", "0") or 0)
    if args.replay:
        d = json.load(open(args.replay))
        log(json.dumps(d, indent=1)[:6000])
        nat = (d.get("replay_on_real_code") or {})
        if nat.get("cmd"):
            log("re-run natively with: cd %s/build/%s/kani && %s" % (VERIF, prop, nat["cmd"]))
        return 0
    plan = tomllib.load(open(os.path.join(VERIF, "contracts", prop, "plan.toml"), "rb"))
    t0 = time.time()
    out = Outcome(prop, args.tier)
    for u in plan.get("verus", []):
        if args.tier in u.get("tiers", ["quick", "thorough"]):
            run_verus_unit(plan, u, out, args.tier)
    for k in plan.get("kani", []):
        run_kani_unit(plan, k, out, args.tier)
    if plan.get("custom"):
        import importlib.util
        spec = importlib.util.spec_from_file_location("custom_" + prop, os.path.join(VERIF, "contracts", prop, plan["custom"]))
        mod = importlib.util.module_from_spec(spec)
        spec.loader.exec_module(mod)
        mod.run(plan, out, args.tier, REPO)
    known, _fixed = load_known(prop)
    known_names = {k["obligation"]: k for k in known}
    known_hit = []
    new_fail = []
    for f in out.failed:
        if f["name"] in known_names:
            f["known"] = True
            known_hit.append(f["name"])
        else:
            new_fail.append(f)
    if new_fail and not args.no_replay:
        attach_replays(plan, out)
    rc = 0
    for name in sorted(set(known_hit)):
        log("KNOWN-FINDING: property=%s %s :: %s" % (prop, name, known_names[name]["what"]))
    rdir = os.path.join(VERIF, "replays" if REPO == "/repo" else "build/scratch_replays", prop)
    if new_fail:
        os.makedirs(rdir, exist_ok=True)
    for f in new_fail:
        rp = os.path.join(rdir, sanitize(f["name"]) + ".json")
        rep = f.get("replay") or {"property": prop, "obligation": f["name"], "backend": f["backend"],
                                  "verifier_output": f["detail"], "counterexample": None}
        with open(rp, "w") as fh:
            json.dump(rep, fh, indent=1)
        tail = "" if f.get("has_input") else " no-failing-input-found"
        log("FAILED OBLIGATION %s" % f["name"])
        log("VIOLATION property=%s replay=%s%s" % (prop, rp, tail))
        rc = 1
    if out.infra:
        for m in out.infra:
            log("UNDECIDED(%s): %s" % (prop, m[:1200]))
        if rc == 0:
            rc = 2
    wall = time.time() - t0
    write_evidence(plan, out, args.tier, wall, seed, len(new_fail), sorted(set(known_hit)))
    log("%s tier=%s obligations=%d discharged=%d bounded_harnesses=%d failed=%d known=%d infra=%d wall=%.1fs -> exit %d" %
        (prop, args.tier, out.obligations, out.discharged, len(out.bounded), len(new_fail), len(set(known_hit)),
         len(out.infra), wall, rc))
    return rc


if __name__ == "__main__":
    sys.exit(main())

"""Mechanical extraction of real functions from /repo into a Verus unit, with contract splicing.

A unit template (contracts/<Cxx>/<unit>.rs.tmpl) is ordinary Verus text plus directive blocks:

    //@@ fn <file> | <path>              path: `name` or `scope header ::> name` (scope = impl/trait/mod header)
    //@@ cfg <substring>                 pick the candidate whose attributes contain this text
    //@@ as <new name>                   rename the function in the unit
    //@@ sig <regex> => <replacement>    rewrite inside the *signature* only (listed in evidence)
    //@@ ret <name>                      name the return value: `-> T` becomes `-> (name: T)`
    //@@ spec                            following `//@@   ` lines are spliced after the signature
    //@@   requires ..., ensures ...
    //@@ loop <k>                        following lines are spliced before the `{` of loop ordinal k
    //@@   invariant ..., decreases ...
    //@@ pre                             following lines are spliced at body start (ghost lets)
    //@@ rule <name> [args]              enable a named rewrite rule on the body (see RULES)
    //@@ attr <text>                     attribute line put before the fn (e.g. #[verifier::loop_isolation(false)])
    //@@ drop-qual <word>                drop a qualifier from the signature (const, unsafe, pub(crate))
    //@@ end

The body is copied byte-for-byte from the repository's working tree; only the enabled rules touch
it, each by exact pattern, each counted.  The result carries a line map generated-line -> origin so
that verifier diagnostics can be named after source functions and contract clauses.
"""
import hashlib
import os
import re

from rustscan import (AnchorLost, Unsupported, code_mask, find_loops, locate, match_brace)

REPO = os.environ.get("VERIF_REPO", "/repo")

DROPPED_ATTR_RE = re.compile(
    r"#\[\s*(inline(\([^)]*\))?|must_use(\s*=\s*\"[^\"]*\")?|expect\([^\]]*\)|allow\([^\]]*\)|"
    r"cfg\(feature\s*=\s*\"alloc\"\)|no_mangle|cfg\(not\(feature\s*=\s*\"vdso\"\)\)|"
    r"cfg\(test\)|doc\s*=[^\]]*|cfg\(feature\s*=\s*\"aux\"\)|cfg\(not\(feature\s*=\s*\"aux\"\)\)|cfg\(feature\s*=\s*\"start\"\)|cfg\(not\(feature\s*=\s*\"start\"\)\))\s*\]")


class Extracted:
    def __init__(self):
        self.text = ""
        self.linemap = []       # per generated line (1-based index-1): dict origin
        self.functions = []     # dicts: name, file, line_start, line_end, sha256, rules{name:count}, dropped[]
        self.rule_counts = {}
        self.assumption_scan = []


# ------------------------------------------------------------------------------------------------
# rewrite rules.  Each takes (body_text, args) and returns (new_text, count).  A rule never guesses:
# it either matches its exact pattern or leaves the text alone; patterns that look half-matched
# raise Unsupported.

def _rule_subst(body, args):
    """rule subst /regex/ => replacement  — literal, exact, counted.  Used for the R1/R2/R6 families
    whose pattern depends on the unit (documented per unit in evidence)."""
    mm = re.match(r"\s*/(.*)/\s*=>\s*(.*)$", args, re.S)
    if not mm:
        raise Unsupported("bad subst rule: %r" % args)
    pat, rep = mm.group(1), mm.group(2)
    mask = code_mask(body)
    out = []
    pos = 0
    cnt = 0
    for m in re.finditer(pat, body):
        if not mask[m.start()]:
            continue
        out.append(body[pos:m.start()])
        out.append(m.expand(rep))
        pos = m.end()
        cnt += 1
    out.append(body[pos:])
    return "".join(out), cnt


def _rule_enumerate(body, args):
    """R3: `for (i, b) in S.iter().enumerate() {` -> index loop header.  The loop stays a `for` over
    a range so Verus' for-loop support (auto range invariant) applies:
        for i in 0..S.len() { let b = &S[i]; ...
    Refused if the loop body shadows i or b by another pattern binding of the same name."""
    pat = re.compile(r"for\s*\(\s*(\w+)\s*,\s*(\w+)\s*\)\s*in\s*([\w\.\(\)]+?)\.iter\(\)\.enumerate\(\)\s*\{")
    cnt = 0
    while True:
        mask = code_mask(body)
        m = None
        for mm in pat.finditer(body):
            if mask[mm.start()]:
                m = mm
                break
        if not m:
            break
        i, b, s = m.group(1), m.group(2), m.group(3)
        ob = m.end() - 1
        cb = match_brace(body, mask, ob)
        inner = body[ob + 1:cb]
        if re.search(r"\blet\s+(mut\s+)?%s\b" % re.escape(i), inner):
            raise Unsupported("R3: loop body rebinds index `%s`" % i)
        new_hdr = "for %s in 0..%s.len() { let %s = &%s[%s];" % (i, s, b, s, i)
        body = body[:m.start()] + new_hdr + body[ob + 1:]
        cnt += 1
    if re.search(r"\.enumerate\(\)", "".join(c for c, k in zip(body, code_mask(body)) if k)):
        raise Unsupported("R3: an enumerate() remains that the rule's pattern does not cover")
    return body, cnt


def _rule_enumerate_rev(body, args):
    """R4: `for (i, b) in S.iter().enumerate().rev() {` ->
         let mut i = S.len(); while i > 0 { i -= 1; let b = &S[i];
       (same visiting order: len-1 down to 0).  Refused if the loop body contains `continue`."""
    pat = re.compile(r"for\s*\(\s*(\w+)\s*,\s*(\w+)\s*\)\s*in\s*([\w\.\(\)]+?)\.iter\(\)\.enumerate\(\)\.rev\(\)\s*\{")
    cnt = 0
    while True:
        mask = code_mask(body)
        m = None
        for mm in pat.finditer(body):
            if mask[mm.start()]:
                m = mm
                break
        if not m:
            break
        i, b, s = m.group(1), m.group(2), m.group(3)
        ob = m.end() - 1
        cb = match_brace(body, mask, ob)
        inner = body[ob + 1:cb]
        if re.search(r"\bcontinue\b", inner):
            raise Unsupported("R4: loop body contains `continue`")
        if re.search(r"\blet\s+(mut\s+)?%s\b" % re.escape(i), inner):
            raise Unsupported("R4: loop body rebinds index `%s`" % i)
        new_hdr = "let mut %s: usize = %s.len(); while %s > 0 { %s -= 1; let %s = &%s[%s];" % (i, s, i, i, b, s, i)
        body = body[:m.start()] + new_hdr + body[ob + 1:]
        cnt += 1
    return body, cnt


def _rule_drop_unsafe_blocks(body, args):
    """`unsafe { E }` -> `{ E }` (the content must be safe after the other rules; Verus checks)."""
    pat = re.compile(r"\bunsafe\s*\{")
    mask = code_mask(body)
    out = []
    pos = 0
    cnt = 0
    for m in pat.finditer(body):
        if not mask[m.start()]:
            continue
        out.append(body[pos:m.start()])
        out.append("{")
        pos = m.end()
        cnt += 1
    out.append(body[pos:])
    return "".join(out), cnt


RULES = {
    "subst": _rule_subst,
    "R3-enumerate": _rule_enumerate,
    "R4-enumerate-rev": _rule_enumerate_rev,
    "drop-unsafe-blocks": _rule_drop_unsafe_blocks,
}


# ------------------------------------------------------------------------------------------------

def _rule_drop_nested_fns(body, args):
    """Remove fn items nested directly in the body (with their attributes and doc comments); they are
    extracted as separate functions of the unit.  Counted so that a nested fn added or removed is seen."""
    from rustscan import top_level_blocks
    mask = code_mask(body)
    cuts = []
    for hdr, ob, cb in top_level_blocks(body, mask, 0, len(body)):
        h = "".join(body[i] if mask[i] else " " for i in range(hdr, ob))
        if re.search(r"^\s*(?:#\[[^\]]*\]\s*)*(?:pub(?:\([^)]*\))?\s+)?(?:const\s+)?(?:unsafe\s+)?(?:extern\s+\"[^\"]*\"\s+)?fn\s+\w+", h):
            cuts.append((hdr, cb + 1))
    out = body
    for a, b in reversed(cuts):
        out = out[:a] + out[b:]
    return out, len(cuts)


RULES["drop-nested-fns"] = _rule_drop_nested_fns


def _parse_directive_block(lines):
    d = {"file": None, "path": None, "cfg": None, "as": None, "ret": None, "spec": [], "loops": {},
         "pre": [], "rules": [], "sig": [], "attrs": [], "dropq": [], "body_from": None}
    cur = None
    for ln in lines:
        assert ln.startswith("//@@")
        rest = ln[4:]
        if rest.startswith("   ") or rest.strip() == "" and cur is not None and rest != " end":
            # continuation
            if cur is None:
                raise Unsupported("continuation without section: %r" % ln)
            cur.append(rest[3:] if rest.startswith("   ") else "")
            continue
        rest = rest.strip()
        head, _, arg = rest.partition(" ")
        arg = arg.strip()
        if head == "fn":
            f, _, p = arg.partition("|")
            d["file"], d["path"] = f.strip(), p.strip()
            cur = None
        elif head == "cfg":
            d["cfg"] = arg
        elif head == "as":
            d["as"] = arg
        elif head == "ret":
            d["ret"] = arg
        elif head == "spec":
            cur = d["spec"]
        elif head == "loop":
            cur = d["loops"].setdefault(int(arg), [])
        elif head == "pre":
            cur = d["pre"]
        elif head == "rule":
            n, _, a = arg.partition(" ")
            d["rules"].append((n, a))
            cur = None
        elif head == "sig":
            d["sig"].append(arg)
            cur = None
        elif head == "attr":
            d["attrs"].append(arg)
            cur = None
        elif head == "drop-qual":
            d["dropq"].append(arg)
            cur = None
        elif head == "end":
            cur = None
        else:
            raise Unsupported("unknown directive %r" % ln)
    return d


def _sha(s):
    return hashlib.sha256(s.encode()).hexdigest()


def extract_fn(d, repo=REPO, plain=False):
    """Return (list of (text_line, origin)) for one directive block.  plain=True emits the same
    rewritten body without contracts (used for translation validation)."""
    path = os.path.join(repo, d["file"])
    try:
        src = open(path, encoding="utf-8").read()
    except OSError as e:
        raise AnchorLost("cannot read %s: %s" % (d["file"], e))
    it = locate(src, d["path"], file=d["file"], cfg_pick=d["cfg"])
    name = it.name
    out_name = d["as"] or name
    info = {"name": out_name, "source_fn": d["path"], "file": d["file"],
            "line_start": it.line_of(it.sig_start), "line_end": it.line_of(it.body_close),
            "sha256": _sha(src[it.sig_start:it.body_close + 1]), "rules": {}, "dropped": [],
            "loops": 0}
    # attributes
    attrs = it.attrs
    kept_attrs = []
    amask = code_mask(attrs)
    pos = 0
    for m in re.finditer(r"#\[", attrs):
        if not amask[m.start()]:
            continue
        close = match_brace(attrs, amask, m.start() + 1, "[", "]")
        a = attrs[m.start():close + 1]
        if DROPPED_ATTR_RE.fullmatch(a.strip()):
            info["dropped"].append(re.sub(r"\s+", " ", a))
        else:
            raise Unsupported("attribute %s on %s is not in the drop list" % (a, name))
    if "///" in attrs or "/**" in attrs:
        info["dropped"].append("doc comments")
    # signature
    sig = it.signature.rstrip()
    for q in d["dropq"]:
        new = re.sub(r"\b" + re.escape(q) + r"(?=[\s(])\s*", "", sig, count=1) if not q.startswith("pub(") \
            else sig.replace(q, "pub", 1)
        if new == sig:
            raise AnchorLost("qualifier `%s` not present in signature of %s" % (q, name))
        info["dropped"].append("qualifier " + q)
        sig = new
    for s in d["sig"]:
        mm = re.match(r"/(.*)/\s*=>\s*(.*)$", s, re.S)
        if not mm:
            raise Unsupported("bad sig rule %r" % s)
        new, k = re.subn(mm.group(1), mm.group(2), sig)
        if k == 0:
            raise AnchorLost("signature rewrite %r does not match %s" % (s, name))
        info["rules"]["sig:" + s] = k
        sig = new
    if d["as"]:
        sig = re.sub(r"\bfn\s+" + re.escape(name) + r"\b", "fn " + out_name, sig, count=1)
    if d["ret"] and not plain:
        # find the top-level `->` of the signature (after the parameter list)
        smask = code_mask(sig)
        par = sig.index("(", sig.index("fn "))
        parc = match_brace(sig, smask, par, "(", ")")
        tail = sig[parc + 1:]
        mm = re.match(r"\s*->\s*", tail)
        if not mm:
            raise AnchorLost("fn %s has no return type to name" % name)
        rt = tail[mm.end():]
        wh = re.search(r"\bwhere\b", rt)
        where = ""
        if wh:
            where = " " + rt[wh.start():]
            rt = rt[:wh.start()]
        sig = sig[:parc + 1] + " -> (" + d["ret"] + ": " + rt.strip() + ")" + where
    # body
    body = it.body
    for rn, ra in d["rules"]:
        if rn not in RULES:
            raise Unsupported("unknown rule " + rn)
        body, cnt = RULES[rn](body, ra)
        key = rn + (" " + ra if ra else "")
        if cnt == 0:
            raise AnchorLost("rule `%s` no longer matches anything in %s" % (key, name))
        info["rules"][key] = cnt
    loops = find_loops(body)
    info["loops"] = len(loops)
    if not plain:
        want = set(d["loops"].keys())
        if want and (max(want) >= len(loops)):
            raise AnchorLost("loop anchors changed in %s: contract names loop %d, body has %d loops"
                             % (name, max(want), len(loops)))
    lines = []

    def emit(text, origin):
        for t in text.split("\n"):
            lines.append((t, origin))

    body_line0 = it.line_of(it.body_open)
    if not plain:
        for a in d["attrs"]:
            emit(a, {"k": "contract", "fn": out_name, "sec": "attr"})
    emit(sig, {"k": "sig", "fn": out_name, "file": d["file"], "line": info["line_start"]})
    if not plain:
        for i, s in enumerate(d["spec"]):
            emit("    " + s, {"k": "contract", "fn": out_name, "sec": "spec", "idx": i, "text": s.strip()})
    emit("{", {"k": "brace", "fn": out_name})
    if not plain:
        for i, s in enumerate(d["pre"]):
            emit("    " + s, {"k": "contract", "fn": out_name, "sec": "pre", "idx": i, "text": s.strip()})
    # splice loop invariants (from the last loop to the first so offsets stay valid)
    pieces = []
    last = 0
    if not plain:
        for k, (kw, kwpos, ob, cb) in enumerate(loops):
            if k in d["loops"]:
                pieces.append(("src", body[last:ob]))
                pieces.append(("inv", k, d["loops"][k]))
                last = ob
    pieces.append(("src", body[last:]))
    # source text pieces keep track of their source line numbers
    cur_line = body_line0
    partial = None
    for p in pieces:
        if p[0] == "src":
            segs = p[1].split("\n")
            for j, seg in enumerate(segs):
                if j == 0 and partial is not None:
                    # continue the line after an invariant block
                    lines.append((seg, {"k": "body", "fn": out_name, "file": d["file"], "line": cur_line}))
                else:
                    if j > 0:
                        cur_line += 1
                    lines.append((seg, {"k": "body", "fn": out_name, "file": d["file"], "line": cur_line}))
            partial = True
        else:
            _, k, inv = p
            for i, s in enumerate(inv):
                lines.append(("        " + s, {"k": "contract", "fn": out_name, "sec": "loop%d" % k, "idx": i,
                                               "text": s.strip()}))
    emit("}", {"k": "brace", "fn": out_name})
    return lines, info


def errno_consts(repo):
    """`impl Errno { pub const NAME: Self = Self(v); .. }` for every name in rusl's errno_impl! list,
    values read from the linux-rust-bindings source in the cargo registry (x86_64)."""
    import glob
    src = open(os.path.join(repo, "rusl/src/error/errno.rs"), encoding="utf-8").read()
    m = re.search(r"errno_impl!\s*\((.*?)\);", src, re.S)
    if not m:
        raise AnchorLost("errno_impl! list not found in rusl/src/error/errno.rs")
    names = re.findall(r"^\s*([A-Z][A-Z0-9_]*)\s*,", m.group(1), re.M)
    vals = {}
    for f in glob.glob(os.path.expanduser("~/.cargo/registry/src/*/linux-rust-bindings-0.1.3/src/errno/errno_x86.rs")):
        for mm in re.finditer(r"pub const (E[A-Z0-9_]+): i32 = (\d+);", open(f).read()):
            vals[mm.group(1)] = int(mm.group(2))
    lines = ["impl Errno {"]
    for n in names:
        if n in vals:
            lines.append("    pub const %s: Self = Self(%d);" % (n, vals[n]))
    lines.append("}")
    if len(lines) < 10:
        raise AnchorLost("errno constants could not be resolved")
    return lines


def extract_const(spec, repo=REPO, plain=False):
    """`//@@ const <file> | <scope> ::> NAME == <value>` — rule R8: the const item's initialiser is taken
    verbatim and emitted as `exec const NAME: T ensures <Self::>NAME == value { <initialiser> }`, so the
    verifier proves the constant has the value the contracts are written against."""
    hint = ""
    if ";;" in spec:
        spec, hint = spec.split(";;", 1)
        hint = hint.strip()
    m = re.match(r"(\S+)\s*\|\s*(.*?)\s*==\s*(.+)$", spec.strip())
    if not m:
        raise Unsupported("bad const directive %r" % spec)
    file, path, value = m.group(1), m.group(2), m.group(3).strip()
    try:
        src = open(os.path.join(repo, file), encoding="utf-8").read()
    except OSError as e:
        raise AnchorLost("cannot read %s: %s" % (file, e))
    from rustscan import find_scopes
    mask = code_mask(src)
    parts = [q.strip() for q in path.split("::>")]
    regions = [(0, len(src))]
    for sc in parts[:-1]:
        nxt = []
        for (a, b) in regions:
            for ob, cb in find_scopes(src, mask, sc, a, b):
                nxt.append((ob + 1, cb))
        if not nxt:
            raise AnchorLost("scope `%s` not found in %s" % (sc, file))
        regions = nxt
    name = parts[-1]
    hits = []
    for (a, b) in regions:
        for mm in re.finditer(r"(?:pub(?:\([^)]*\))?\s+)?const\s+" + re.escape(name) + r"\s*:\s*([^=;]+?)\s*=\s*([^;]+);", src[a:b]):
            if mask[a + mm.start()]:
                hits.append(mm)
    if len(hits) != 1:
        raise AnchorLost("const `%s` in %s: %d candidates" % (name, file, len(hits)))
    ty, init = hits[0].group(1).strip(), re.sub(r"\s+", " ", hits[0].group(2).strip())   # one line: keeps the line map exact
    q = "Self::" if len(parts) > 1 else ""
    if plain:
        text = "    const %s: %s = %s;" % (name, ty, init)
    else:
        text = ("    exec const %s: %s ensures %s%s == %s { broadcast use vstd::layout::layout_of_primitives; %s%s }"
                % (name, ty, q, name, value, ("proof { %s } " % hint) if hint else "", init))
    info = {"name": "const " + name, "source_fn": path, "file": file, "line_start": 0, "line_end": 0,
            "sha256": _sha(hits[0].group(0)), "rules": {"R8-const-as-exec-const": 1}, "dropped": [], "loops": 0}
    return text, info


def render(template_path, repo=REPO, plain=False):
    """Process a template; returns Extracted."""
    ex = Extracted()
    tl = open(template_path, encoding="utf-8").read().split("\n")
    out = []
    i = 0
    # `//@@plain-mode directives-only`: the plain emission (translation validation) consists of the extracted
    # items alone; all Verus text of the template is left out
    directives_only = plain and any(l.strip() == "//@@plain-mode directives-only" for l in tl)
    while i < len(tl):
        ln = tl[i]
        if ln.lstrip().startswith("//@@ fn "):
            blk = []
            while i < len(tl):
                s = tl[i].lstrip()
                if not s.startswith("//@@"):
                    raise Unsupported("directive block not closed with //@@ end at template line %d" % (i + 1))
                blk.append(s)
                i += 1
                if s.strip() == "//@@ end":
                    break
            d = _parse_directive_block(blk)
            lines, info = extract_fn(d, repo=repo, plain=plain)
            out.extend(lines)
            ex.functions.append(info)
            for k, v in info["rules"].items():
                ex.rule_counts[k] = ex.rule_counts.get(k, 0) + v
        elif ln.lstrip().startswith("//@@ const "):
            text, info = extract_const(ln.lstrip()[len("//@@ const "):], repo=repo, plain=plain)
            out.append((text, {"k": "const", "fn": info["name"].replace(" ", "_"), "line": i + 1}))
            ex.functions.append(info)
            for k, v in info["rules"].items():
                ex.rule_counts[k] = ex.rule_counts.get(k, 0) + v
            i += 1
        elif ln.lstrip().startswith("//@@errno-consts"):
            for t in errno_consts(repo):
                out.append((t, {"k": "template", "line": i + 1}))
            i += 1
        elif ln.lstrip().startswith("//@@plain-only "):
            if plain:
                out.append((ln.lstrip()[len("//@@plain-only "):], {"k": "template", "line": i + 1}))
            i += 1
        elif ln.lstrip().startswith("//@@verus-only-begin"):
            i += 1
            while not tl[i].lstrip().startswith("//@@verus-only-end"):
                if not plain:
                    out.append((tl[i], {"k": "template", "line": i + 1}))
                i += 1
            i += 1
        else:
            if not directives_only:
                out.append((ln, {"k": "template", "line": i + 1}))
            i += 1
    ex.text = "\n".join(t for t, _ in out) + "\n"
    ex.linemap = [o for _, o in out]
    # mechanical scan for assumptions in the generated text
    scan_pat = re.compile(r"\b(assume\s*\(|admit\s*\(|external_body|assume_specification|external_fn_specification|"
                          r"axiom|#\[verifier::truncate\]|external_type_specification|#\[verifier::external\]|"
                          r"exec_allows_no_decreases_clause|accept_recursive_types|uninterp)")
    for n, (t, o) in enumerate(out):
        if t.lstrip().startswith("//"):
            continue
        m = scan_pat.search(t)
        if m:
            ex.assumption_scan.append("gen:%d %s" % (n + 1, t.strip()[:160]))
    return ex


if __name__ == "__main__":
    import sys
    e = render(sys.argv[1], plain=len(sys.argv) > 2 and sys.argv[2] == "--plain")
    sys.stdout.write(e.text)

#!/usr/bin/env python3
"""Writes /verif/MANIFEST.json from the table below (single source of truth for the interface)."""
import json
import os

VERIF = os.path.dirname(os.path.dirname(os.path.abspath(__file__)))

NA = {
    "C01": "quantifies over thread interleavings / weak memory / futex wake choices; a per-function sequential contract cannot state mutual exclusion or absence of lost wake-ups; Kani has no threads, Verus would need the lock rewritten against its ghost-token atomics (a model, excluded)",
    "C02": "same as C01 for the RwLock: schedules, wake hand-off and weak-CAS failures are outside what function contracts decide",
    "C04": "whole-history growth bound of a stateful allocator whose representation invariant (C03 core) is not established by any per-call contract within reach",
    "C05": "thread start/exit is a clone trampoline in global_asm, a kernel-written clear-tid word and a two-party hand-shake; correctness is an interleaving argument outside both verifiers",
    "C06": "resource release happens in assembly after the Rust stack is gone and depends on the order of two parties; no sequential contract over the Rust fragments implies exactly-once release",
}

# property -> check description; filled in as units are built
CHECKS = {
    "C16": {
        "category": "model_checking",
        "technique": "bounded Kani harnesses on the real MsgHdrBorrow::control_messages / ControlMessageIterator (cmsg macros) under CBMC's pointer checks; control buffers as exactly-sized objects so that any read outside the supplied buffer is a failed check; bounded Kani harnesses on the real UnixStream::write / read (sock.rs wait-for-readiness step) with every system-call answer symbolic, postconditions over the stub kernel's call trace",
        "text": "PARTIAL and bounded — (a) the ancillary-data clause: for control buffers that one SCM_RIGHTS message with 0, 1 or 2 descriptors fills exactly, for two messages back to back, and for arbitrary bytes under the kernel's record contract with every supplied length 0..=40, the walk yields exactly the SCM_RIGHTS messages in the buffer, in order, with exactly their descriptors, never dereferences or yields anything outside the supplied buffer, and never panics; (b) the code's share of 'bytes reach the peer complete ... when the operation must wait for readiness': UnixStream::write / read and the time-limited TcpStream::read_with_timeout report to the caller exactly the sum of what the kernel's own write/read calls reported, every call being for the part of the buffer not yet transferred (same descriptor), Ok only if the last call succeeded; Timeout only after ppoll answered 0; a limit that does not fit a timespec fails before any system call — for every combination of system-call answers (<= 3 ppoll calls). What the kernel does with accepted bytes (delivery, ordering, blocking, wall-clock timeouts), try-variants and the kernel's side of sendmsg/recvmsg: not decided.",
        "note": "One clause of C16 plus one per-call contract of another; everything about schedules, payload sizes and timing is outside what contracts on this code decide. Bounds: buffers <= 48 bytes, <= 2 messages, <= 2 descriptors. The check found the addr_of! defect in cmsg_nxthdr!/__mhdr_end! (fixed in 912e1c2).",
        "design_ref": "§4.C16, §9.7",
    },
    "C08": {
        "category": "proof",
        "technique": "Verus contracts on the mechanically extracted real bodies of all 15 functions of tiny-start/src/symbols/mem.rs over one ghost byte-addressed memory (raw pointers read as addresses, rule R7), bit-vector lemmas for the alignment masks and the word broadcast; native companion for failing-input witnesses and translation validation (bounded, not counted)",
        "text": "Deductive proof for every length, every address (hence every source/destination alignment) and every overlap: memmove leaves exactly the source range's original bytes in the destination range and changes no other address, with no restriction on overlap (direction choice by wrapping delta proved safe); memcpy the same under C's no-overlap precondition; memset fills exactly [s, s+n) with (unsigned char)c; memcmp is 0 iff equal, otherwise the difference of the first differing bytes as unsigned char; bcmp is 0 iff equal. Proved through contracts on every helper (byte head, aligned / misaligned word body, byte tail, forward and backward, the broadcast loop), including: every access lies inside the operand ranges, aligned word accesses are aligned, no address computation overflows, the constants are 8/7/16. A companion program runs the property's own grid (n <= 40, misalignments 0..15, all overlap distances, sampled to 1 MiB) on the real functions to attach a concrete failing input to a failed obligation and to check that the rewritten bodies behave as the real ones.",
        "note": "Trusted: the ghost memory interface (flat little-endian byte map, 5 external_body accessors), rule R7's textual rewrites (listed with match counts in evidence), assumed contracts on usize::wrapping_neg and i32::from(u8), 64-bit usize. Not modelled: pointer provenance / ptr::add's in-allocation rule; #![no_builtins] code generation.",
        "design_ref": "§4.C08, §9.7",
    },
    "C03": {
        "category": "proof",
        "technique": "Verus contracts (with bit-vector lemmas) on the mechanically extracted pure size-class/alignment helpers and, over a ghost word memory (rule R7), the chunk-header and bitmap helpers of dlmalloc.rs + Kani loop-free full-domain proofs of the same helpers on the compiled crate",
        "text": "PARTIAL — arithmetic helpers and chunk-header algebra only, not the heap property: over a ghost word memory Verus proves the 16 boundary-tag helpers of `impl Chunk` (exactly which bits of which header word change, size and in-use flags read back as written, the neighbour's P flag set/cleared with its size and C flag kept, footer = size, no other word changes) and the 6 bin-bitmap helpers (touch exactly bit idx), with the flag constants proved from their initialisers; for all inputs Verus proves the contracts of align_up, pad_request, request2size, small_index, small_index2size, is_small, is_aligned, align_offset_usize, mmap_align, least_bit and leftshift_for_tree_index (results in range, aligned, large enough, bounded waste, no arithmetic overflow under the stated preconditions; small-bin round trip as a lemma over the contracts); Kani proves on the compiled crate, for every input (loop-free), the same contracts plus compute_tree_index (in range, monotone, size inside its bin's bracket), left_bits, request2size monotonicity, and that the constants restated in the Verus unit are the crate's. The statement of C03 about live blocks over arbitrary histories (disjointness, intactness, OOM) is not decided: it needs dlmalloc's full representation invariant over raw-pointer code that neither verifier can carry.",
        "note": "A change inside malloc/free/realloc that corrupts the heap without touching these helpers is NOT detected by this check. Hook: dlmalloc::verif_hooks re-exports (feature verif-hooks). Seeded changes C03-2/C03-3 (memalign, free) are the documented misses.",
        "design_ref": "§4.C03",
    },
    "C20": {
        "category": "model_checking",
        "technique": "Verus contract on the extracted write_str; bounded Kani harnesses: contract on the 128-byte cause buffer for arbitrary text; never-panics and (for three single-field structs) exact-acceptance contract on parsers generated by the real derive macro for the repository's own struct family (copied mechanically each run)",
        "text": "Partial: Verus proves ArgParseCauseBuffer::write_str for text of any length (Ok iff it fits, exact append, Err changes nothing, no panic); bounded: the cause buffer of ArgParseError never panics or overflows for any text up to 130 bytes in two consecutive writes (a write succeeds iff it fits, a rejected write changes nothing, an over-long cause yields the OVERFLOW value with its recorded length); parsers generated by the real proc-macro for the simplest derived structs of tiny-cli/tests/derive_test.rs return Ok or Err — never panic — for every list of <= 2 arguments of <= 3 arbitrary non-NUL bytes; for the three single-field structs whose whole grammar fits that bound (flag `-b`; required positional i32; optional positional i32) acceptance is exact, by clauses generated from the struct declaration: the empty line, the declared flag and every rendered i32 of <= 3 bytes incl. sign parse back to exactly that value, everything else is an Err. Nothing about 'every struct shape', several options in any order, or help text is decided: that is a statement about a program generator.",
        "note": "core::fmt is stubbed out of the parser harnesses (new_cause_fmt replaced via kani::stub). Larger structs of the family time out in CBMC and are not claimed.",
        "design_ref": "§4.C20",
    },
    "C14": {
        "category": "model_checking",
        "technique": "bounded Kani harnesses on the real create_dir_all / ReadDir / File::copy with a ghost path log, a scripted getdents64 stream and symbolic copy_file_range counts in the stub kernel (postconditions over the trace); Verus contracts (unbounded) on File::copy against a ghost kernel holding source and destination bytes, on the OpenOptions flag mapping and on the Dirent record parser",
        "text": "Bounded, partial: (a) create_dir_all for every path of 1..4 (thorough: 1..5) bytes over {a,/} — relative/absolute, single component, repeated and trailing separators — with every mkdir answer symbolic (created, EEXIST, ENOENT, any errno): Ok implies the kernel was asked to create the leaf and answered created-or-exists (so, by mkdir's contract, it and its ancestors exist), Err carries the last mkdir's errno; an existing component never makes it fail; (b) ReadDir over a symbolic well-formed getdents64 stream delivered in one or two kernel batches: each record yielded exactly once, in order, with exact NUL-terminated name and type, then end of stream; (c) File::copy for every sequence of copy_file_range answers: destination created+truncated, offsets passed by pointer, exactly the remaining bytes requested, loop ends at st_size or on 0, errors propagate; (d) Verus, unbounded: OpenOptions -> open flag word equals std's documented mapping for all option combinations; Dirent::try_from_bytes under the kernel's record contract for names of any length up to 255 (exact name bytes, NUL padded, exact type/reclen/ino/off, every unchecked access in range, layout constants proved) and DirEntry::file_unix_name (the name handed to openat/unlinkat is the record's name plus one NUL); File::copy, body verbatim, against a ghost kernel (source bytes, destination bytes) under a stated kernel contract for fstat / open / copy_file_range: for a source of any size and any sequence of short transfers, Ok implies the destination holds exactly the source's bytes whatever it held before (loop invariant dst == src[..offset]; termination of the loop included); fs::write, body verbatim, same ghost kernel: Ok implies the file holds exactly the given bytes whatever it held before (write_all used by its contract proved under C15). Content equality after write/read, remove_dir_all (measured: no verdict, DESIGN §9.5) and symlink behaviour are not decided.",
        "note": "NOT decided: content equality after read (read_to_end is outside, see C15), what the kernel does beyond the stated contracts, remove_dir_all's effect on the tree, symlinks; File::copy is decided only relative to the trusted kernel contract of its three calls (source and destination distinct files, source unchanged during the copy); paths > 5 bytes incl. the 512-byte heap path. Kernel semantics are not modelled beyond mkdir answers and the getdents64 record format.",
        "design_ref": "§4.C14",
    },
    "C13": {
        "category": "fault_enumeration",
        "technique": "Verus data-invariant contract on the extracted builder methods; Kani on the real Command::spawn with a ghost process role in the stub kernel (fork: error/child/parent, exec only fails, exit ends the path after an at-exit contract check); every syscall on both sides symbolically failing",
        "text": "Verus proves the argv/envp data invariant of Command::arg / Command::env for any number of entries (pointers of the configured strings in order, one trailing NULL, nothing dropped). Bounded, partial: with every system call before and after the fork independently failing with any errno or succeeding, (1) spawn never returns in the child process; (2) a child whose dup2/chdir/setuid/setgid/setpgid/execve fails reports errno_be ++ NOEX carrying that step's positive errno through the sync pipe and exits; (3) the parent returns Ok iff its first non-EINTR read of the sync pipe returned 0; (4) on the child's path to exec, chdir/setuid happen iff configured, before exec, in order, with the configured value, and execve receives exactly the binary, argv = [bin, args.., NULL] and envp = [entries.., NULL] in order (checked in the non-`start` configuration of Command::env). (6) Child::wait / try_wait on the returned child ask wait4 about exactly the forked pid (WNOHANG exactly for try_wait), return the status the kernel stored or wait4's errno, give None iff wait4 returned 0, and answer from the stored status without another system call once it is known.",
        "note": "Bounded to <= 13 system calls and the listed command shapes (0..1 extra args, 0..2 env entries, no pre-exec closures, Stdio::Null excluded: constant DEV_NULL path is a const fat pointer). Not decided: what the exec'd program observes, the `start`-feature env variant, the no-alloc spawn front end, what the wait status means (kernel).",
        "design_ref": "§4.C13",
    },
    "C12": {
        "category": "fault_enumeration",
        "technique": "Kani on the real operations with a ghost descriptor/mapping table in the stub kernel: frame-condition contract over the table, every syscall symbolically failing or succeeding",
        "text": "Bounded, partial: for 14 fd-creating operations (UnixStream::connect/try_connect, UnixListener::bind/accept/try_accept, TcpListener::bind/accept/try_accept, TcpStream::connect/try_connect incl. the in-progress second stage, OpenOptions::open over all option combinations, File::open, Directory::open, EpollDriver::create, rusl setup_io_uring, File::copy, and Command::spawn as seen from the caller: stdio pipes and both ends of the CLOEXEC sync pipe) one symbolic execution lets each system call of the operation fail with any errno or succeed, i.e. every failure index k at once; the contract is the frame condition on the ghost descriptor (and mapping) table: Err => nothing opened stays open, Ok(v) => exactly v's descriptors, released by drop(v), no double or foreign close.",
        "note": "Not covered (listed in evidence): openpty, getpwuid_r (constant UnixStr paths: Kani cannot evaluate const fat pointers; File::copy is covered with stat_fd replaced through kani::stub for the same reason), thread spawn. EINTR retry loops bounded to 7 system calls per operation, spawn to 13. The setup_io_uring leak was first recorded as a known finding, then repaired (ad58ccd); no open finding.",
        "design_ref": "§4.C12",
    },
    "C07": {
        "category": "model_checking",
        "technique": "Verus contracts on the extracted resolve (both cfg variants, over a ghost word memory: any argc / envc) and from_auxv (unbounded) + bounded Kani harnesses with function-level contracts (byte-string definition of environment lookup, last-pair-wins aux values) on the real start/env code over symbolic memory images",
        "text": "Partial: Verus proves env::var_unix for an environment block of any number and length of entries (value of the first entry whose name equals the key exactly, Missing iff none, all reads inside the block), tiny_start::start::resolve for a process-entry stack image of any shape (arg_c = word at sp, arg_v = sp+8, env_p = sp+8*(argc+2), environment scan ends at the first NULL, aux vector taken from right behind it, all reads inside the image) and AuxValues::from_auxv for aux vectors of any length (last pair with a key wins, large/unknown keys ignored, no read past AT_NULL). Bounded: on the compiled crates, for every well-formed initial stack image of four concrete shapes with symbolic contents, tiny_start::start::resolve returns pointers to exactly the kernel's argv/envp words and per aux key the value of the last pair with that key (unknown/large keys ignored, nothing read past AT_NULL); env::var / var_unix return the value of the first entry whose name equals the key exactly, Missing otherwise, NotUnicode iff the value is not UTF-8, for every environment of <= 2 entries x <= 4 bytes over the full byte alphabet and every key up to 3-4 bytes; args_os yields exactly argv[0..argc]. Out-of-bounds reads fail Kani's pointer checks. This is a bounded stand-in, not a proof.",
        "note": "NOT decided: _start assembly, static-PIE self-relocation (relocate_symbols), vDSO lookup/agreement, 'in every link mode', debug/release differences. Keys assumed non-empty without '='. Hook: tiny-std feature verif-hooks (env::verif_set_env).",
        "design_ref": "§4.C07",
    },
    "C18": {
        "category": "proof",
        "technique": "Kani loop-free harnesses on the compiled crate: (a) every SQE constructor, symbolic arguments, produced entry read back as raw bytes at the uapi offsets against the kernel ABI's per-opcode field use; (b) the real Drop impl under ghost mapping/descriptor-table contracts (frame condition over the syscall trace)",
        "text": "Our side of sentence 1 and all of sentence 2. (a) For 18 SQE constructors (readv, writev, read/write_fixed, openat, close, statx, unlinkat, renameat, mkdirat, socket, connect, accept x2, timeout, sendmsg_raw, recvmsg, poll_add) and every argument value: the 64-byte entry carries the operation's uapi opcode, each argument of the equivalent system call in exactly the field the kernel reads it from (e.g. accept: addr = peer-address buffer, addr2 = pointer to its length; connect: addr2 = the length by value; renameat: len = new dirfd, addr2 = new path), the caller's sqe flags and user_data, and zero in every unused field. Loop-free over symbolic arguments: complete per constructor. (b) Teardown: for symbolic ring sizes, flags and both mapping layouts dropping the ring issues exactly one munmap per distinct mapping with its exact address/length, exactly one close of the ring descriptor, and no other system call. What the kernel does with a correctly encoded entry (one completion, same result as the direct call, batches) is kernel behaviour: not decided.",
        "note": "Trusted: the ABI table in kani_ws/c18/src/lib.rs (offsets, opcode numbers, per-opcode field use from the uapi header / liburing), stub kernel's munmap/close contracts, verif-hooks constructor. Not covered: new_sendmsg (allocating guard), readv/writev offset semantics, upper half of poll32_events (uninitialised union padding). Found and repaired: accept's swapped addr/addr2 (68b2653), connect's length passed by pointer (80d0ace).",
        "design_ref": "§4.C18, §9.7",
    },
    "C15": {
        "category": "proof",
        "technique": "Verus contracts on trait default methods against an environment contract of the required method (ghost written/pending sequences), bodies extracted verbatim; bounded Kani twins",
        "text": "For every script of writer/reader responses of any length (short count, EINTR, other error) and data of any size, Verus proves on the real bodies: write_all Ok => every byte delivered exactly once in order, Err => a prefix delivered and the error is not a retried EINTR; default_read_exact Ok => buffer equals the next |buf| bytes of the stream and the stream advanced exactly that far, Err => an in-order prefix was delivered. read_to_end, read_to_string and write_fmt are explicitly NOT decided (tool limits measured, see level_note).",
        "note": "Partial with respect to the property statement: read_to_end/read_to_string/write_fmt are outside both verifiers here (Verus: MaybeUninit/String internals; CBMC: no verdict in 15 min for 3 calls x 3 bytes). Termination under endless EINTR not claimed. Trusted: Verus' prophecy encoding of `buf = &mut tmp[n..]`; restated Error/Errno.",
        "design_ref": "§4.C15",
    },
    "C17": {
        "category": "proof",
        "technique": "Verus per-call ring contracts (all u32 counter values, wrap included) on the verbatim bodies + protocol lemmas over the contracts; Kani loop-free twins on the compiled crate via the verif-hooks constructor",
        "text": "For every u32 value of the free-running head/tail counters (no small-counter precondition) and every power-of-two ring size, Verus proves on the real bodies: get_next_sqe_slot hands out slot (tail & mask) << shift iff fewer than `entries` submissions are outstanding and advances tail by one (wrapping); flush publishes tail and returns the outstanding count; get_next_cqe returns entry (khead & mask) << shift iff ktail != khead and advances the head by one; ring invariant preserved, every other field unchanged, no arithmetic overflow. Protocol lemmas derive no-reuse-before-consume, distinct indices of outstanding entries and exactly-once in-order reaping from those contracts. Kani proves the same per-call contracts bit-precisely on the compiled crate (loop-free, ring sizes 1..8, SQE128/CQE32/SQPOLL).",
        "note": "Trusted: atomic accessors as ghost-word stand-ins (memory ordering not modelled); restated queue structs; rely on the kernel side stated as the ring invariant; SQ index array identity (C18).",
        "design_ref": "§4.C17",
    },
    "C10": {
        "category": "proof",
        "technique": "Verus contracts (nul_once postconditions, panic-freedom obligations) on mechanically extracted constructors/path ops + bounded Kani twins on the compiled crate",
        "text": "For every byte string (all lengths): each safe constructor, conversion and path operation returns bytes ending in exactly one NUL (no other NUL for NUL-free content) or Err, never a panic — proved by Verus on the real bodies of try_from_bytes (both), try_from_vec, From<&UnixStr>, const_null_term_validate (unix_lit!), path_join, path_join_fmt, parent_path, path_file_name, buf_strlen, strlen, from_format, try_from_str (both) and from_str_checked.",
        "note": "Trusted: repr(transparent) projection/injection identities; assumed contracts on to_vec/copied/get_unchecked/String-bytes/extend; alloc::fmt::format arbitrary; const validator's assert! modelled as divergence. Bounded parts (Kani, length <= 4) are reported separately in evidence.",
        "design_ref": "§4.C10",
    },
    "C11": {
        "category": "proof",
        "technique": "Verus contracts against byte-string definitions (first occurrence, suffix, join_spec, last separator) on mechanically extracted functions + bounded Kani twins",
        "text": "For all operand pairs of all lengths Verus proves on the real bodies: buf_find/find/find_buf = first occurrence index or None (incl. empty needle, needle longer than haystack, match at the very end); ends_with <=> suffix; path_join/path_join_fmt = join with exactly one separator at the boundary; parent_path/path_file_name split at the last separator; match_up_to / match_up_to_str = length of the longest common prefix, with every pointer read in range (rule R7 turns `p.add(i).read()` into an indexed read); none panics or indexes out of range (get_unchecked preconditions are obligations).",
        "note": "Trusted: as C10. &UnixStr operands assumed nul_once. Kani twins bounded to content length <= 4.",
        "design_ref": "§4.C11",
    },
    "C09": {
        "category": "proof",
        "technique": "Kani function-level contract harnesses (loop-free, full register domain) on every mechanically enumerated wrapper of the compiled rusl crate, stub syscall instruction",
        "text": "For each of the ~80 raw wrappers (enumerated from the source on every run; an uncovered wrapper makes the run undecided) a loop-free Kani harness proves, for every 64-bit register value the stubbed `syscall` can return: exactly one call issued; Err iff register in [-4095,-1]; errno = negated register in 1..=4095; Ok carries the register unchanged in the result type. Loop-free over the full domain is a complete proof per wrapper; dup2/dup3 are explored under a 3-call budget (stateless retry loop) and listed as bounded.",
        "note": "Trusted: Kani/CBMC; the stub replaces the syscall instruction; out-parameters are not filled (pipe2: filled with arbitrary non-negative ints). Excluded (listed in evidence): exit, get_pid, clock_get_{real,monotonic}_time (no Result), setup_io_uring (composite), stat_fd (const fat pointer unsupported by Kani; same helper as stat/statat).",
        "design_ref": "§4.C09",
    },
    "C19": {
        "category": "proof",
        "technique": "Verus contracts on the extracted real helpers + Kani full-domain loop-free proofs on the compiled public API",
        "text": "Deductive proof for all inputs: Verus discharges requires/ensures of the four time helpers (bodies copied verbatim from /repo each run) against exact ns()/D() specifications over mathematical integers, and the laws (t+d)-d=t, (t+d)-t=d, order-agrees-with-subtraction as lemmas over those contracts; Kani proves the SystemTime/Instant/TimeSpec operators of the compiled crate equal a carry/borrow oracle over the whole 64-bit domain (loop-free, hence complete) and yields replayable counterexamples.",
        "note": "Trusted: Verus/Z3, Kani/CBMC; assumed contracts on core::time::Duration and three integer conversions (also asserted on the real std by a Kani conformance harness); __kernel_timespec restated. Not decided: monotonic clock and sleep lower bound (kernel).",
        "design_ref": "§4.C19",
    },
}

PENDING_REASON = "planned in DESIGN.md with contracts, check not built yet in this commit — not claimed until its obligations are discharged on the unchanged tree"


def main():
    props = [json.loads(l)["id"] for l in open(os.path.join(VERIF, "properties.jsonl"))]
    checks = []
    na = []
    for p in props:
        if p in CHECKS:
            c = CHECKS[p]
            checks.append({
                "property_id": p,
                "quick_cmd": "python3 vp/check.py %s --tier quick" % p,
                "thorough_cmd": "python3 vp/check.py %s --tier thorough" % p,
                "evidence_file": "/verif/evidence/%s.json" % p,
                "replay_cmd_template": "python3 vp/check.py %s --replay {path}" % p,
                "engine": "vp",
                "level_claimed": {"category": c["category"], "text": c["text"], "design_ref": c["design_ref"]},
                "level_note": c["note"],
                "technique": c["technique"],
            })
        else:
            na.append({"property_id": p, "reason": NA.get(p, PENDING_REASON)})
    m = {
        "version": 1,
        "setup_cmd": "python3 vp/setup.py",
        "hooks": {
            "guard": "verif-hooks",
            "enable": "cargo feature `verif-hooks` on rusl / tiny-std (harness crates under kani_ws enable it; off by default)",
            "baseline_off_cmd": "cd /repo && cargo test --workspace --no-fail-fast --offline -- --test-threads=1",
            "source_commits": HOOK_COMMITS,
            "add_only": True,
        },
        "engines": [{
            "name": "vp",
            "path": "/verif/vp",
            "serves_properties": sorted(CHECKS.keys()),
            "kind_free_text": "contract-based deductive verification: mechanical extraction of real functions + sidecar contracts -> Verus (unbounded); Kani/CBMC on the compiled real crates with a stub `sc` ghost kernel (bit-precise, counterexamples, native replay)",
        }],
        "checks": checks,
        "not_applicable": na,
        "notes": "exit 0 holds / exit 1 VIOLATION / exit 2 undecided for tool reasons (never an alarm). Known findings: /verif/KNOWN_FINDINGS.txt.",
    }
    with open(os.path.join(VERIF, "MANIFEST.json"), "w") as f:
        json.dump(m, f, indent=1)
        f.write("\n")
    print("MANIFEST.json: %d checks, %d not_applicable" % (len(checks), len(na)))


HOOK_COMMITS = ["c98543c", "744c63e", "fd46e5d"]

if __name__ == "__main__":
    main()

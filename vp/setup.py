#!/usr/bin/env python3
"""setup: check the tools are there and warm the Kani builds (offline, from files on disk only)."""
import os, subprocess, sys, tomllib, glob
HERE = os.path.dirname(os.path.abspath(__file__))
VERIF = os.path.dirname(HERE)
sys.path.insert(0, HERE)
import kani_run

def main():
    for tool in (["verus", "--version"], ["cargo", "kani", "--version"]):
        p = subprocess.run(tool, capture_output=True, text=True, env=kani_run._env())
        if p.returncode != 0:
            print("setup: tool missing:", tool, p.stderr[-300:]); return 1
    os.makedirs(os.path.join(VERIF, "build"), exist_ok=True)
    os.makedirs(os.path.join(VERIF, "evidence"), exist_ok=True)
    rc = 0
    procs = []
    for plan_path in sorted(glob.glob(os.path.join(VERIF, "contracts", "*", "plan.toml"))):
        plan = tomllib.load(open(plan_path, "rb"))
        for k in plan.get("kani", []):
            ws = kani_run.prepare_ws(plan["id"], k["crate"])
            cmd = ["cargo", "kani", "--only-codegen"] + (k.get("extra_args") or [])
            procs.append((plan["id"], k["crate"], subprocess.Popen(cmd, cwd=ws, env=kani_run._env(),
                          stdout=subprocess.PIPE, stderr=subprocess.STDOUT, text=True)))
    for pid, crate, p in procs:
        out, _ = p.communicate()
        if p.returncode != 0:
            print("setup: warm build of %s/%s failed (checks will report it):\n%s" % (pid, crate, out[-1500:]))
        else:
            print("setup: warmed %s/%s" % (pid, crate))
    return rc

if __name__ == "__main__":
    sys.exit(main())

"""Run Verus on a generated unit and turn diagnostics into named obligations."""
import json
import os
import re
import subprocess
import time

KIND_MAP = [
    ("postcondition not satisfied", "postcondition"),
    ("precondition not satisfied", "callee-precondition"),
    ("assertion failed", "assertion"),
    ("possible arithmetic underflow/overflow", "arithmetic-overflow"),
    ("possible division by zero", "division-by-zero"),
    ("invariant not satisfied before loop", "invariant-before-loop"),
    ("invariant not satisfied at end of loop body", "invariant-end-of-body"),
    ("loop invariant not satisfied", "invariant"),
    ("decreases not satisfied", "decreases"),
    ("possible bit shift underflow/overflow", "shift-range"),
    ("recommendation not met", "recommends"),
    ("index out of bounds", "index-in-bounds"),
    ("unreachable", "unreachable"),
]

INFRA_PATTERNS = [
    "Resource limit (rlimit) exceeded",
    "rlimit",
    "timed out",
    "unsupported",          # "The verifier does not yet support ..."
    "not supported",
    "cannot find",
    "mismatched types",
    "unresolved",
]


def classify(msg):
    for k, v in KIND_MAP:
        if k in msg:
            return v
    return None


def run_verus(gen_path, linemap, multiple_errors=20, rlimit=None, extra=None, timeout=900):
    """Returns dict: ok(bool|None), verified, errors, failures[], infra[], smt_ms, total_ms, cmd."""
    cmd = ["verus", os.path.basename(gen_path), "--output-json", "--time", "--error-format=json",
           "--multiple-errors", str(multiple_errors)]
    if rlimit:
        cmd += ["--rlimit", str(rlimit)]
    if extra:
        cmd += extra
    t0 = time.time()
    try:
        p = subprocess.run(cmd, cwd=os.path.dirname(gen_path), capture_output=True, text=True, timeout=timeout)
    except subprocess.TimeoutExpired:
        return {"ok": None, "verified": 0, "errors": 0, "failures": [], "infra": ["verus timed out after %ds" % timeout],
                "smt_ms": 0, "total_ms": int((time.time() - t0) * 1000), "cmd": " ".join(cmd)}
    wall = time.time() - t0
    res = {"ok": None, "verified": 0, "errors": 0, "failures": [], "infra": [], "smt_ms": 0,
           "total_ms": int(wall * 1000), "cmd": " ".join(cmd), "raw_stderr_tail": p.stderr[-4000:]}
    # stdout: one JSON document
    try:
        j = json.loads(p.stdout[p.stdout.index("{"):])
        vr = j.get("verification-results", {})
        res["verified"] = vr.get("verified", 0)
        res["errors"] = vr.get("errors", 0)
        res["encountered_error"] = vr.get("encountered-error", False)
        res["encountered_vir_error"] = vr.get("encountered-vir-error", False)
        tm = j.get("times-ms", {})
        res["smt_ms"] = tm.get("smt", {}).get("total", 0)
        res["verus_total_ms"] = tm.get("total", 0)
        res["func_count"] = len(j.get("func-details", {}))
    except (ValueError, KeyError) as e:
        res["infra"].append("verus produced no JSON result: %s" % e)
        return res
    diags = []
    for ln in p.stderr.split("\n"):
        ln = ln.strip()
        if ln.startswith("{") and '"$message_type"' in ln:
            try:
                diags.append(json.loads(ln))
            except ValueError:
                pass
    for d in diags:
        if d.get("level") != "error":
            continue
        msg = d.get("message", "")
        if msg.startswith("aborting due to"):
            continue
        kind = classify(msg)
        spans = d.get("spans", [])
        prim = [s for s in spans if s.get("is_primary")]
        sec = [s for s in spans if not s.get("is_primary")]
        ps = prim[0] if prim else (spans[0] if spans else None)
        if kind is None:
            res["infra"].append("verus error (not an obligation): %s @ gen:%s" %
                                (msg, ps["line_start"] if ps else "?"))
            continue
        f = {"kind": kind, "message": msg, "rendered": d.get("rendered", "")[:3000]}
        if ps:
            gl = ps["line_start"]
            org = linemap[gl - 1] if 0 < gl <= len(linemap) else {"k": "?"}
            f["gen_line"] = gl
            f["origin"] = org
            txt = ps["text"][0]["text"] if ps.get("text") else ""
            hs, he = (ps["text"][0]["highlight_start"], ps["text"][0]["highlight_end"]) if ps.get("text") else (1, 1)
            f["expr"] = re.sub(r"\s+", " ", txt[hs - 1:he - 1]).strip()[:80]
        # where (secondary spans): function context
        ctx_fn = None
        for s in [ps] + sec:
            if not s:
                continue
            o = linemap[s["line_start"] - 1] if 0 < s["line_start"] <= len(linemap) else {}
            if o.get("fn"):
                ctx_fn = o["fn"]
                if o.get("k") in ("body", "sig", "brace"):
                    break
        f["fn"] = ctx_fn
        res["failures"].append(f)
    res["ok"] = (res["errors"] == 0 and not res.get("encountered_error") and not res["infra"])
    if res.get("encountered_error") and not res["failures"] and not res["infra"]:
        res["infra"].append("verus reported an error without a parsable diagnostic: " + p.stderr[-800:])
    return res


def obligation_name(unit, f, template_fn_of_line=None):
    """Stable obligation name for a failure record."""
    fn = f.get("fn") or "?"
    o = f.get("origin", {})
    kind = f["kind"]
    if kind == "postcondition" and o.get("k") == "contract":
        return "verus:%s:%s:ensures[%s]" % (unit, o.get("fn", fn), o.get("text", "")[:70])
    if o.get("k") == "contract":
        return "verus:%s:%s:%s@%s[%s]" % (unit, o.get("fn", fn), kind, o.get("sec"), o.get("text", "")[:70])
    if o.get("k") == "body":
        return "verus:%s:%s:%s[%s]" % (unit, fn, kind, f.get("expr", ""))
    if o.get("k") == "const":
        return "verus:%s:%s:has_recorded_value[%s]" % (unit, o.get("fn"), f.get("expr", ""))
    if o.get("k") == "template":
        return "verus:%s:template-L%s:%s[%s]" % (unit, o.get("line"), kind, f.get("expr", ""))
    return "verus:%s:%s:%s[%s]" % (unit, fn, kind, f.get("expr", ""))

use rusl::platform::{ControlMessageSend, IoSliceMut, MsgHdrBorrow};
#[repr(C, align(8))]
struct Arena([u8; 96]);
fn main() {
    let mut a = Arena([0u8; 96]);
    // one SCM_RIGHTS message carrying one descriptor: cmsg_len = 16 + 4 = 20, space = 24
    a.0[0..8].copy_from_slice(&20usize.to_ne_bytes());
    a.0[8..12].copy_from_slice(&1i32.to_ne_bytes());
    a.0[12..16].copy_from_slice(&1i32.to_ne_bytes());
    a.0[16..20].copy_from_slice(&7i32.to_ne_bytes());
    // OUTSIDE the supplied control buffer (offset 24..): something that looks like another message
    a.0[24..32].copy_from_slice(&20usize.to_ne_bytes());
    a.0[32..36].copy_from_slice(&1i32.to_ne_bytes());
    a.0[36..40].copy_from_slice(&1i32.to_ne_bytes());
    a.0[40..44].copy_from_slice(&666i32.to_ne_bytes());
    let mut space = [0u8; 8];
    let io = &mut [IoSliceMut::new(&mut space)];
    let (ctrl, _rest) = a.0.split_at_mut(24);
    let hdr = MsgHdrBorrow::create_recv(io, Some(ctrl));
    let mut n = 0;
    for m in hdr.control_messages() {
        n += 1;
        match m { ControlMessageSend::ScmRights(fds) => println!("message {}: {} fds, first = {:?}", n, fds.len(), fds.first()) }
        if n >= 4 { break; }
    }
    if n == 1 { println!("OK: one message, iterator stopped at the end of the 24-byte control buffer"); }
    else { println!("MISMATCH: iterator produced {} messages from a control buffer that holds exactly one (read outside the supplied buffer)", n); std::process::exit(1); }
}

// C18 demonstration: io_uring accept / connect vs the direct system calls.
use rusl::io_uring::{io_uring_enter, setup_io_uring};
use rusl::network::{bind_inet, bind_unix, connect_inet, get_inet_sock_name, listen, socket};
use rusl::platform::*;
use rusl::string::unix_str::UnixStr;

fn main() {
    let mut bad = 0;
    let mut uring = setup_io_uring(8, IoUringParamFlags::empty(), 0, 0).expect("io_uring_setup");
    // ---------- accept: the peer address must come back in (sockaddr, addr_len), as with accept4(2) ----------
    let addr = SocketAddressInet::new([127, 0, 0, 1], 0);
    let srv = socket(AddressFamily::AF_INET, SocketOptions::new(SocketType::SOCK_STREAM, SocketFlags::SOCK_CLOEXEC), 6).unwrap();
    bind_inet(srv, &addr).unwrap();
    let name = get_inet_sock_name(srv).unwrap();
    let addr = SocketAddressInet::new([127, 0, 0, 1], name.ipv4_addr().1);
    listen(srv, NonNegativeI32::comptime_checked_new(4)).unwrap();
    let cl = socket(AddressFamily::AF_INET, SocketOptions::new(SocketType::SOCK_STREAM, SocketFlags::SOCK_CLOEXEC), 6).unwrap();
    connect_inet(cl, &addr).unwrap();
    let cl_name = get_inet_sock_name(cl).unwrap();
    let mut peer = SocketAddressInet::new([0, 0, 0, 0], 0);
    let mut peer_len: u64 = 16;
    let sqe = unsafe { IoUringSubmissionQueueEntry::new_accept_inet(srv, &mut peer, &mut peer_len, SocketFlags::SOCK_CLOEXEC, 77, IoUringSQEFlags::empty()) };
    unsafe { uring.get_next_sqe_slot().unwrap().write(sqe) };
    uring.flush_submission_queue();
    io_uring_enter(uring.fd, 1, 1, IoUringEnterFlags::IORING_ENTER_GETEVENTS).unwrap();
    let res = { let c = uring.get_next_cqe().unwrap(); c.0.res };
    let raw: [u8; 16] = unsafe { core::mem::transmute_copy(&peer) };
    let family = u16::from_ne_bytes([raw[0], raw[1]]);
    println!("accept via io_uring: res={} sin_family={} addr={:?} addr_len={}   (client is AF_INET=2, {:?})", res, family, peer.ipv4_addr(), peer_len, cl_name.ipv4_addr());
    if !(res >= 0 && family == 2 && peer.ipv4_addr() == cl_name.ipv4_addr() && peer_len == 16) {
        println!("MISMATCH: accept4(2) would have stored the peer's address (family 2, its port) and length 16");
        bad += 1;
    }
    // ---------- connect: must succeed like connect(2) with the same address ----------
    let path = UnixStr::try_from_str("/tmp/c18_demo_sock\0").unwrap();
    let _ = rusl::unistd::unlink(path);
    let uaddr = SocketAddressUnix::try_from_unix(path).unwrap();
    let usrv = socket(AddressFamily::AF_UNIX, SocketOptions::new(SocketType::SOCK_STREAM, SocketFlags::SOCK_CLOEXEC), 0).unwrap();
    bind_unix(usrv, &uaddr).unwrap();
    listen(usrv, NonNegativeI32::comptime_checked_new(4)).unwrap();
    let ucl = socket(AddressFamily::AF_UNIX, SocketOptions::new(SocketType::SOCK_STREAM, SocketFlags::SOCK_CLOEXEC), 0).unwrap();
    let sqe = unsafe { IoUringSubmissionQueueEntry::new_connect_unix(ucl, &uaddr, 78, IoUringSQEFlags::empty()) };
    unsafe { uring.get_next_sqe_slot().unwrap().write(sqe) };
    uring.flush_submission_queue();
    io_uring_enter(uring.fd, 1, 1, IoUringEnterFlags::IORING_ENTER_GETEVENTS).unwrap();
    let res = { let c = uring.get_next_cqe().unwrap(); c.0.res };
    println!("connect via io_uring: res={}", res);
    if res != 0 {
        println!("MISMATCH: connect(2) with the same address succeeds (checked next)");
        bad += 1;
    }
    let ucl2 = socket(AddressFamily::AF_UNIX, SocketOptions::new(SocketType::SOCK_STREAM, SocketFlags::SOCK_CLOEXEC), 0).unwrap();
    println!("direct connect(2): {:?}", rusl::network::connect_unix(ucl2, &uaddr).map(|_| 0));
    let _ = rusl::unistd::unlink(path);
    if bad == 0 { println!("OK"); } else { std::process::exit(1); }
}

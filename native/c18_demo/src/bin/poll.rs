use rusl::platform::*;
#[inline(never)]
fn dirty(seed: u8) -> u64 { let mut a = [seed; 4096]; let mut s = 0u64; for (i, b) in a.iter_mut().enumerate() { *b = b.wrapping_add(i as u8) | 0x80; } for b in a.iter() { s += *b as u64; } std::hint::black_box(&a); s }
#[inline(never)]
fn make(fd: Fd, ev: PollEvents) -> IoUringSubmissionQueueEntry { IoUringSubmissionQueueEntry::new_poll_add(fd, ev, PollAddMultiFlags::empty(), 5, IoUringSQEFlags::empty()) }
fn main() {
    let mut worst = 0u16;
    for i in 0..64u8 {
        std::hint::black_box(dirty(i));
        let s = make(Fd::try_new(3).unwrap(), PollEvents::POLLIN);
        let raw: [u8; 64] = unsafe { core::mem::transmute_copy(&s) };
        let upper = u16::from_ne_bytes([raw[30], raw[31]]);
        if upper != 0 { worst = upper; }
    }
    println!("upper half of poll32_events after new_poll_add(POLLIN): {:#06x}", worst);
    if worst != 0 { println!("MISMATCH: the kernel reads 32 bits"); std::process::exit(1) } else { println!("OK (zero in this build)"); }
}

// C08 native companion (bounded, never counted as proof).  Two jobs, both on the REAL functions of
// tiny-start/src/symbols/mem.rs (real.rs = that file with only the `#[no_mangle]` lines removed, so the
// symbols do not replace libc's inside this test binary):
//   1. witness search: the property's own quantifier (every n in 0..=2*threshold+word, every src/dst
//      misalignment 0..=15, every overlap distance, fill bytes, position of first differing byte, plus sampled
//      sizes up to 1 MiB) against a byte-loop reference with red zones -> `WITNESS ...` lines give a concrete
//      failing input for the replay file of a failed Verus obligation;
//   2. translation validation of rule R7: rewritten.rs is the *plain emission* of the Verus unit (the same
//      rewritten bodies the verifier sees, contracts stripped) run over real addresses; any difference from
//      the real functions on the same inputs -> `XLATE ...` lines (an infrastructure error, not a violation).
#![allow(dead_code, unused_mut, unused_unsafe, clippy::all, unexpected_cfgs, unfulfilled_lint_expectations)]

mod real;
mod native_prelude {
    #[derive(Clone, Copy)] pub struct P8(pub usize);
    #[derive(Clone, Copy)] pub struct PW(pub usize);
    pub struct Mem;
    impl Mem {
        #[inline(always)] pub fn r8(&self, p: P8) -> u8 { unsafe { (p.0 as *const u8).read_volatile() } }
        #[inline(always)] pub fn w8(&mut self, p: P8, v: u8) { unsafe { (p.0 as *mut u8).write_volatile(v) } }
        #[inline(always)] pub fn rw(&self, p: PW) -> usize { unsafe { (p.0 as *const usize).read_unaligned() } }   // alignment is the verifier's obligation, not checked here
        #[inline(always)] pub fn rw_unaligned(&self, p: PW) -> usize { unsafe { (p.0 as *const usize).read_unaligned() } }
        #[inline(always)] pub fn ww(&mut self, p: PW, w: usize) { unsafe { (p.0 as *mut usize).write_unaligned(w) } }
    }
    impl P8 {
        pub fn add(self, n: usize) -> P8 { P8(self.0 + n) }
        pub fn sub(self, n: usize) -> P8 { P8(self.0 - n) }
        pub fn lt(self, o: P8) -> bool { self.0 < o.0 }
        pub fn addr(self) -> usize { self.0 }
        pub fn cast<T>(self) -> PW { PW(self.0) }
    }
    impl PW {
        pub fn add(self, n: usize) -> PW { PW(self.0 + 8 * n) }
        pub fn sub(self, n: usize) -> PW { PW(self.0 - 8 * n) }
        pub fn lt(self, o: PW) -> bool { self.0 < o.0 }
    }
    pub fn truncate_u8(c: i32) -> u8 { c as u8 }
}
mod rewritten;

use native_prelude::{Mem, P8};

const RED: usize = 32;
const ARENA: usize = 256;

struct Rng(u64);
impl Rng { fn next(&mut self) -> u64 { self.0 = self.0.wrapping_mul(6364136223846793005).wrapping_add(1442695040888963407); self.0 >> 33 } }

#[repr(align(64))]
struct Arena([u8; ARENA]);

fn pattern(a: &mut [u8], salt: u8) { for (i, b) in a.iter_mut().enumerate() { *b = (i as u8).wrapping_mul(31).wrapping_add(salt) | 1; } }

static mut WITNESSES: usize = 0;
static mut XLATES: usize = 0;
fn witness(s: String) { unsafe { WITNESSES += 1; if WITNESSES <= 12 { println!("WITNESS {}", s); } } }
fn xlate(s: String) { unsafe { XLATES += 1; if XLATES <= 12 { println!("XLATE {}", s); } } }

fn first_diff(a: &[u8], b: &[u8]) -> Option<usize> { a.iter().zip(b.iter()).position(|(x, y)| x != y) }

/// one-arena move (memmove / overlapping or disjoint memcpy): dst and src are offsets into the arena
fn check_move(name: &str, which: u8, d: usize, s: usize, n: usize) {
    let mut base = Arena([0; ARENA]); pattern(&mut base.0, 7);
    let mut want = Arena([0; ARENA]); want.0 = base.0;
    let tmp: Vec<u8> = base.0[s..s + n].to_vec();
    want.0[d..d + n].copy_from_slice(&tmp);
    let mut got = Arena([0; ARENA]); got.0 = base.0;
    let p = got.0.as_mut_ptr();
    let r = unsafe { if which == 0 { real::memmove(p.add(d), p.add(s), n) } else { real::memcpy(p.add(d), p.add(s), n) } };
    if r != unsafe { p.add(d) } { witness(format!("fn={} n={} dst_off={} src_off={} returns wrong pointer", name, n, d, s)); }
    if let Some(k) = first_diff(&got.0, &want.0) {
        witness(format!("fn={} n={} dst_misalign={} src_misalign={} overlap_distance={} first_wrong_byte_at_dst{:+} got={:#04x} want={:#04x}",
                        name, n, d % 16, s % 16, d as isize - s as isize, k as isize - d as isize, got.0[k], want.0[k]));
    }
    let mut rw = Arena([0; ARENA]); rw.0 = base.0;
    let q = rw.0.as_mut_ptr() as usize;
    let mut m = Mem;
    let ok = std::panic::catch_unwind(std::panic::AssertUnwindSafe(|| {
        if which == 0 { rewritten::memmove(&mut m, P8(q + d), P8(q + s), n); } else { rewritten::memcpy(&mut m, P8(q + d), P8(q + s), n); }
    }));
    if ok.is_err() || rw.0 != got.0 { xlate(format!("fn={} n={} dst_off={} src_off={} rewritten body differs from real body", name, n, d, s)); }
}

fn check_set(d: usize, n: usize, c: i32) {
    let mut base = Arena([0; ARENA]); pattern(&mut base.0, 3);
    let mut want = Arena([0; ARENA]); want.0 = base.0;
    for b in &mut want.0[d..d + n] { *b = c as u8; }
    let mut got = Arena([0; ARENA]); got.0 = base.0;
    let p = got.0.as_mut_ptr();
    let r = unsafe { real::memset(p.add(d), c, n) };
    if r != unsafe { p.add(d) } { witness(format!("fn=memset n={} dst_off={} returns wrong pointer", n, d)); }
    if let Some(k) = first_diff(&got.0, &want.0) {
        witness(format!("fn=memset n={} dst_misalign={} c={} first_wrong_byte_at_dst{:+} got={:#04x} want={:#04x}", n, d % 16, c, k as isize - d as isize, got.0[k], want.0[k]));
    }
    let mut rw = Arena([0; ARENA]); rw.0 = base.0;
    let q = rw.0.as_mut_ptr() as usize;
    let mut m = Mem;
    let ok = std::panic::catch_unwind(std::panic::AssertUnwindSafe(|| { rewritten::memset(&mut m, P8(q + d), c, n); }));
    if ok.is_err() || rw.0 != got.0 { xlate(format!("fn=memset n={} dst_off={} c={} rewritten body differs from real body", n, d, c)); }
}

fn check_cmp(a_off: usize, b_off: usize, n: usize, diff_at: Option<usize>, delta: i32) {
    let mut a = Arena([0; ARENA]); pattern(&mut a.0, 9);
    let mut b = Arena([0; ARENA]); pattern(&mut b.0, 200);
    for i in 0..n { b.0[b_off + i] = a.0[a_off + i]; }
    if let Some(k) = diff_at { b.0[b_off + k] = (a.0[a_off + k] as i32 + delta) as u8; }
    let want: i32 = match diff_at { Some(k) => a.0[a_off + k] as i32 - b.0[b_off + k] as i32, None => 0 };
    let (pa, pb) = (unsafe { a.0.as_ptr().add(a_off) }, unsafe { b.0.as_ptr().add(b_off) });
    let got = unsafe { real::memcmp(pa, pb, n) };
    if got.signum() != want.signum() || (got == 0) != (want == 0) {
        witness(format!("fn=memcmp n={} a_misalign={} b_misalign={} first_diff={:?} a_byte={:#04x} b_byte={:#04x} got={} want_sign={}", n, a_off % 16, b_off % 16, diff_at,
                        diff_at.map_or(0, |k| a.0[a_off + k]), diff_at.map_or(0, |k| b.0[b_off + k]), got, want.signum()));
    }
    let gotb = unsafe { real::bcmp(pa, pb, n) };
    if (gotb == 0) != (want == 0) { witness(format!("fn=bcmp n={} first_diff={:?} got={} want_zero={}", n, diff_at, gotb, want == 0)); }
    let m = Mem;
    let r1 = rewritten::memcmp(&m, P8(pa as usize), P8(pb as usize), n);
    let r2 = rewritten::bcmp(&m, P8(pa as usize), P8(pb as usize), n);
    if r1 != got || r2 != gotb { xlate(format!("fn=memcmp/bcmp n={} first_diff={:?} rewritten {}/{} real {}/{}", n, diff_at, r1, r2, got, gotb)); }
}

fn big(rng: &mut Rng, rounds: usize) {
    const BIG: usize = (1 << 20) + 256;
    let mut base = vec![0u8; BIG]; pattern(&mut base, 5);
    for _ in 0..rounds {
        let n = (rng.next() as usize) % (1 << 20);
        let d = (rng.next() as usize) % 64; let s = (rng.next() as usize) % 64;
        let which = (rng.next() % 3) as u8;
        let mut want = base.clone(); let mut got = base.clone();
        let p = got.as_mut_ptr();
        match which {
            0 => { let t = base[s..s + n].to_vec(); want[d..d + n].copy_from_slice(&t); unsafe { real::memmove(p.add(d), p.add(s), n); } }
            1 => { for b in &mut want[d..d + n] { *b = 0xa5; } unsafe { real::memset(p.add(d), 0xa5, n); } }
            _ => { let mut src = base.clone(); pattern(&mut src, 77); want[d..d + n].copy_from_slice(&src[s..s + n]); unsafe { real::memcpy(p.add(d), src.as_ptr().add(s), n); } }
        }
        if let Some(k) = first_diff(&got, &want) {
            witness(format!("fn={} n={} dst_misalign={} src_misalign={} (sampled large) first_wrong_byte_at_dst{:+}", ["memmove", "memset", "memcpy"][which as usize], n, d % 16, s % 16, k as isize - d as isize));
        }
    }
}

fn main() {
    let thorough = std::env::args().any(|a| a == "--thorough");
    let nmax = if thorough { 72 } else { 40 };            // 2*threshold+word = 40
    // memmove / memcpy: every n, every destination and source misalignment, hence every overlap distance |d-s| < 16,
    // plus for each n every distance up to n+1 at a few alignments
    for n in 0..=nmax {
        for dm in 0..16 { for sm in 0..16 {
            check_move("memmove", 0, RED + dm, RED + sm, n);
        } }
        for dist in 0..=(n + 1) { for al in [0usize, 1, 7, 8] {
            check_move("memmove", 0, RED + al + dist, RED + al, n);     // dst after src (backward copy when dist < n)
            check_move("memmove", 0, RED + al, RED + al + dist, n);     // dst before src
        } }
        // memcpy on disjoint ranges of the one arena
        for dm in 0..16 { for sm in 0..16 { check_move("memcpy", 1, RED + dm, RED + 16 + nmax + 16 + sm, n); } }
        for dm in 0..16 { for c in [0i32, 1, 0x5a, 0xff, 0x100 + 0x33, -1] { check_set(RED + dm, n, c); } }
        for am in [0usize, 1, 3, 8, 15] { for bm in [0usize, 5, 8] {
            check_cmp(RED + am, RED + bm, n, None, 0);
            for k in 0..n { for delta in [1, -1, 100, -100] { check_cmp(RED + am, RED + bm, n, Some(k), delta); } }
        } }
    }
    let mut rng = Rng(0x9e3779b97f4a7c15);
    big(&mut rng, if thorough { 400 } else { 40 });
    let (w, x) = unsafe { (WITNESSES, XLATES) };
    println!("SUMMARY witnesses={} xlate_mismatches={} nmax={}", w, x, nmax);
    std::process::exit(if x > 0 { 3 } else if w > 0 { 1 } else { 0 });
}

//! C12 — descriptor hygiene: each fd-creating operation of tiny-std / rusl runs on the compiled
//! crate with the stub kernel's descriptor-table contract: every fd-creating system call returns
//! either an error or a fresh descriptor, every other call returns 0/1 or any error, so one harness
//! covers every combination of failing system calls.  Frame condition checked on ghost state:
//!   Err  => nothing the operation opened is still open
//!   Ok(v)=> exactly the descriptors owned by v are open, and dropping v closes them
//!   always: no close of a descriptor that is not open / not the operation's (double or foreign close)
#![allow(unused_imports, clippy::all)]
use rusl::platform::IoUringParamFlags;
use rusl::string::unix_str::UnixStr;
use sc::kernel;
use tiny_std::fs::{Directory, File, OpenOptions};
use tiny_std::linux::epoll::EpollDriver;
use tiny_std::net::{Ip, SocketAddress, TcpListener, TcpStream, TcpTryConnect, UnixListener, UnixStream};

pub const PRE_FD: usize = 5; // a descriptor the caller already owns (listener socket etc.)

pub fn begin() {
    kernel::reset();
    kernel::set_mode(kernel::MODE_FDS | kernel::MODE_SMALL_OR_ERR);
    kernel::set_call_budget(7); // bounds EINTR retry loops
    kernel::fd_preexisting(PRE_FD);
}

/// after the operation returned `r`: owned = number of descriptors the returned value owns
pub fn end<T>(r: Result<T, tiny_std::Error>, owned: usize) {
    match r {
        Err(_) => {
            assert!(kernel::fds_open_by_callee() == 0, "nothing_opened_stays_open_on_error");
        }
        Ok(v) => {
            assert!(kernel::fds_open_by_callee() == owned, "exactly_the_returned_descriptors_are_open");
            drop(v);
            assert!(kernel::fds_open_by_callee() == 0, "dropping_the_value_closes_them");
        }
    }
    assert!(kernel::bad_closes() == 0, "no_double_or_foreign_close");
    assert!(kernel::fds_open_preexisting() == 1, "callers_descriptor_untouched");
    assert!(unsafe { kernel::TRACE_OVERFLOW } == 0, "ghost tables large enough");
}

/// a short path: 2 arbitrary non-NUL bytes (bytes >= 128 make SocketAddressUnix::try_from_unix fail
/// *after* the socket was created)
#[cfg(kani)]
pub fn any_path(buf: &mut [u8; 3]) -> &UnixStr {
    let a: u8 = kani::any();
    let b: u8 = kani::any();
    kani::assume(a != 0 && b != 0);
    buf[0] = a;
    buf[1] = b;
    buf[2] = 0;
    unsafe { UnixStr::from_bytes_unchecked(&buf[..]) }
}

#[cfg(kani)]
pub fn any_addr() -> SocketAddress {
    SocketAddress::new(Ip::V4(kani::any()), kani::any())
}

#[cfg(kani)]
pub mod proofs {
    use super::*;

    #[kani::proof]
    #[kani::unwind(10)]
    pub fn c12_unix_stream_connect() {
        let mut b = [0u8; 3];
        let p = any_path(&mut b);
        begin();
        let r = UnixStream::connect(p);
        kani::cover!(r.is_ok(), "connect succeeds");
        kani::cover!(r.is_err() && kernel::trace_len() >= 2, "fails after the socket was created");
        end(r, 1);
    }

    /// thorough tier: the over-long socket path named in the property (108 bytes of path do not fit
    /// sockaddr_un): rejected before any descriptor exists, for connect and for bind
    #[kani::proof]
    #[kani::unwind(112)]
    pub fn c12_t_unix_over_long_path() {
        let mut b = [b'a'; 110];
        b[109] = 0;
        let cut: usize = kani::any();
        kani::assume(cut >= 106 && cut <= 109); // content lengths 106..109: around the 107/108 limit
        b[cut] = 0;
        let p = unsafe { UnixStr::from_bytes_unchecked(&b[..=cut]) };
        begin();
        if kani::any() {
            end(UnixStream::connect(p), 1);
        } else {
            end(UnixListener::bind(p), 1);
        }
    }

    #[kani::proof]
    #[kani::unwind(10)]
    pub fn c12_unix_stream_try_connect() {
        let mut b = [0u8; 3];
        let p = any_path(&mut b);
        begin();
        let r = UnixStream::try_connect(p);
        let owned = if let Ok(Some(_)) = &r { 1 } else { 0 };
        end(r, owned);
    }

    #[kani::proof]
    #[kani::unwind(10)]
    pub fn c12_unix_listener_bind() {
        let mut b = [0u8; 3];
        let p = any_path(&mut b);
        begin();
        let r = UnixListener::bind(p);
        kani::cover!(r.is_ok(), "bind succeeds");
        end(r, 1);
    }

    #[kani::proof]
    #[kani::unwind(10)]
    pub fn c12_unix_listener_accepts() {
        begin();
        // a listener over the caller's descriptor
        let mut l: UnixListener = unsafe { core::mem::transmute::<i32, UnixListener>(PRE_FD as i32) };
        let which: bool = kani::any();
        if which {
            let r = l.try_accept();
            let owned = if let Ok(Some(_)) = &r { 1 } else { 0 };
            core::mem::forget(l);
            end(r, owned);
        } else {
            let r = l.accept();
            core::mem::forget(l);
            end(r, 1);
        }
    }

    #[kani::proof]
    #[kani::unwind(10)]
    pub fn c12_tcp_listener_bind() {
        let a = any_addr();
        begin();
        let r = TcpListener::bind(&a);
        kani::cover!(r.is_ok(), "bind succeeds");
        end(r, 1);
    }

    #[kani::proof]
    #[kani::unwind(10)]
    pub fn c12_tcp_listener_accepts() {
        begin();
        let mut l: TcpListener = unsafe { core::mem::transmute::<i32, TcpListener>(PRE_FD as i32) };
        let which: bool = kani::any();
        if which {
            let r = l.try_accept();
            let owned = if let Ok(Some(_)) = &r { 1 } else { 0 };
            core::mem::forget(l);
            end(r, owned);
        } else {
            let r = l.accept();
            core::mem::forget(l);
            end(r, 1);
        }
    }

    #[kani::proof]
    #[kani::unwind(10)]
    pub fn c12_tcp_stream_connect() {
        let a = any_addr();
        begin();
        let r = TcpStream::connect(&a);
        end(r, 1);
    }

    #[kani::proof]
    #[kani::unwind(10)]
    pub fn c12_tcp_stream_try_connect() {
        let a = any_addr();
        begin();
        let r = TcpStream::try_connect(&a);
        match r {
            Ok(TcpTryConnect::InProgress(p)) => {
                assert!(kernel::fds_open_by_callee() == 1, "in_progress_owns_the_socket");
                // second stage: every outcome of try_connect / connect_blocking on the pending socket
                let which: bool = kani::any();
                if which {
                    let r2 = p.try_connect();
                    end(r2, 1);
                } else {
                    let r2 = p.connect_blocking();
                    end(r2, 1);
                }
            }
            other => end(other, 1),
        }
    }

    #[kani::proof]
    #[kani::unwind(10)]
    pub fn c12_file_open_options() {
        let mut b = [0u8; 3];
        let p = any_path(&mut b);
        let mut o = OpenOptions::new();
        o.read(kani::any()).write(kani::any()).append(kani::any()).truncate(kani::any()).create(kani::any()).create_new(kani::any());
        begin();
        let r = o.open(p);
        kani::cover!(r.is_ok(), "open succeeds");
        end(r, 1);
    }

    #[kani::proof]
    #[kani::unwind(10)]
    pub fn c12_file_and_directory_open() {
        let mut b = [0u8; 3];
        let p = any_path(&mut b);
        begin();
        if kani::any() {
            end(File::open(p), 1);
        } else {
            end(Directory::open(p), 1);
        }
    }

    #[kani::proof]
    #[kani::unwind(10)]
    pub fn c12_epoll_create() {
        begin();
        let r = EpollDriver::create(kani::any());
        end(r, 1);
    }

    /// setup_io_uring: ring descriptor + up to three mappings; any of the calls may fail
    #[kani::proof]
    #[kani::unwind(10)]
    pub fn c12_setup_io_uring() {
        kernel::reset();
        kernel::set_mode(kernel::MODE_FDS | kernel::MODE_MAPS | kernel::MODE_SMALL_OR_ERR);
        kernel::set_call_budget(8);
        kernel::fd_preexisting(PRE_FD);
        let r = rusl::io_uring::setup_io_uring(kani::any(), IoUringParamFlags::empty(), 0, 0);
        kani::cover!(r.is_ok(), "setup succeeds");
        kani::cover!(r.is_err() && kernel::trace_len() >= 3, "fails after the ring fd and a mapping exist");
        match r {
            Err(_) => {
                assert!(kernel::fds_open_by_callee() == 0, "ring_fd_not_leaked_on_error");
                assert!(kernel::maps_live() == 0, "mappings_not_leaked_on_error");
            }
            Ok(ring) => {
                assert!(kernel::fds_open_by_callee() == 1, "ring_owns_one_descriptor");
                assert!(kernel::maps_live() >= 2, "ring_owns_its_mappings");
                drop(ring);
                assert!(kernel::fds_open_by_callee() == 0 && kernel::maps_live() == 0, "drop_releases_everything");
            }
        }
        assert!(kernel::bad_closes() == 0 && kernel::bad_unmaps() == 0, "no_double_or_foreign_release");
        assert!(kernel::fds_open_preexisting() == 1, "callers_descriptor_untouched");
    }

    /// stand-in for rusl::unistd::stat_fd, which passes the constant UnixStr::EMPTY (a const fat
    /// pointer Kani cannot evaluate): same system call, same decoding, arbitrary small file size
    pub fn stub_stat_fd(fd: rusl::platform::Fd) -> rusl::Result<rusl::platform::Stat> {
        let ret = unsafe { sc::syscall4(sc::nr::NEWFSTATAT, fd.value() as usize, 0, 0, 0) };
        if kernel::is_err(ret) {
            return Err(rusl::Error { msg: "stat", code: Some(rusl::error::Errno::new((0isize - ret as isize) as i32)) });
        }
        let mut st: rusl::platform::Stat = unsafe { core::mem::zeroed() };
        let sz: i64 = kani::any();
        kani::assume(sz >= 0 && sz <= 3);
        st.st_size = sz;
        Ok(st)
    }

    /// File::copy: source metadata, destination open, copy_file_range loop — each may fail
    #[kani::proof]
    #[kani::unwind(10)]
    #[kani::stub(rusl::unistd::stat_fd, stub_stat_fd)]
    pub fn c12_file_copy() {
        let mut b = [0u8; 3];
        let p = any_path(&mut b);
        begin();
        let src: File = unsafe { File::from_raw_fd(rusl::platform::Fd::try_new(PRE_FD as i32).unwrap()) };
        let r = src.copy(p);
        core::mem::forget(src);
        kani::cover!(r.is_ok(), "copy succeeds");
        kani::cover!(r.is_err() && kernel::trace_len() >= 3, "copy fails after the destination was opened");
        end(r, 1);
    }
}

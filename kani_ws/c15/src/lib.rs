//! C15 — Kani harnesses on the real `tiny_std::io::{Read, Write}` default methods with a scripted
//! reader/writer: every call is answered by an arbitrary short transfer, 0/EOF, EINTR or EIO.
//! Bounded (number of calls, bytes); the unbounded proofs of write_all/read_exact are the Verus unit.
#![allow(unused_imports, clippy::all)]
extern crate alloc;
use alloc::string::String;
use alloc::vec::Vec;
use rusl::error::Errno;
use tiny_std::io::{Read, Write};
use tiny_std::Error;

pub const DATA: usize = 6;
pub const MAX_CALLS: usize = 5;

pub struct ScriptReader {
    pub data: [u8; DATA],
    pub len: usize,
    pub pos: usize,
    pub calls: usize,
    pub errored: bool,
    /// first errno other than EINTR the reader returned (0 = none)
    pub fatal: i32,
}

#[cfg(kani)]
impl Read for ScriptReader {
    fn read(&mut self, buf: &mut [u8]) -> tiny_std::Result<usize> {
        self.calls += 1;
        kani::assume(self.calls <= MAX_CALLS); // bound: scripts of at most MAX_CALLS responses
        let choice: u8 = kani::any();
        if choice == 0 {
            // any errno: EINTR must be retried, every other one is the reader's error
            let c: i32 = kani::any();
            kani::assume(c >= 1 && c <= 4095);
            if c != Errno::EINTR.raw() && self.fatal == 0 {
                self.errored = true;
                self.fatal = c;
            }
            return Err(Error::Os { msg: "err", code: Errno::new(c) });
        }
        let rem = self.len - self.pos;
        let k: usize = kani::any();
        kani::assume(k <= rem && k <= buf.len());
        // a reader returns 0 only at end of data (or for an empty buffer)
        kani::assume(k > 0 || rem == 0 || buf.is_empty());
        let mut i = 0;
        while i < k {
            buf[i] = self.data[self.pos + i];
            i += 1;
        }
        self.pos += k;
        Ok(k)
    }
}

pub struct ScriptWriter {
    pub got: [u8; DATA],
    pub n: usize,
    pub calls: usize,
    pub fatal: i32,
}

#[cfg(kani)]
impl Write for ScriptWriter {
    fn write(&mut self, buf: &[u8]) -> tiny_std::Result<usize> {
        self.calls += 1;
        kani::assume(self.calls <= MAX_CALLS);
        let choice: u8 = kani::any();
        if choice == 0 {
            let c: i32 = kani::any();
            kani::assume(c >= 1 && c <= 4095);
            if c != Errno::EINTR.raw() && self.fatal == 0 {
                self.fatal = c;
            }
            return Err(Error::Os { msg: "err", code: Errno::new(c) });
        }
        let k: usize = kani::any();
        kani::assume(k <= buf.len() && self.n + k <= DATA);
        let mut i = 0;
        while i < k {
            self.got[self.n + i] = buf[i];
            i += 1;
        }
        self.n += k;
        Ok(k)
    }
    fn flush(&mut self) -> tiny_std::Result<()> {
        Ok(())
    }
}

#[cfg(kani)]
pub fn any_reader() -> ScriptReader {
    let len: usize = kani::any();
    kani::assume(len <= DATA);
    ScriptReader { data: kani::any(), len, pos: 0, calls: 0, errored: false, fatal: 0 }
}

#[cfg(kani)]
pub mod proofs {
    use super::*;

    // read_to_end / read_to_string harnesses were tried here (scripted reader, <= 3 calls, <= 3 bytes,
    // symbolic and concrete capacities) and removed: CBMC does not finish them in 15 minutes — the
    // ReadBuf / MaybeUninit / spare_capacity_mut / realloc machinery, not the loop, is what it cannot
    // carry.  They are therefore NOT decided by this framework (DESIGN §4.C15).

    #[kani::proof]
    #[kani::unwind(12)]
    pub fn c15_read_exact() {
        let mut r = any_reader();
        let want: usize = kani::any();
        kani::assume(want <= DATA);
        let mut buf = [0xEEu8; DATA];
        let res = r.read_exact(&mut buf[..want]);
        // delivered prefix is exact and in order whatever the outcome
        let mut i = 0;
        while i < r.pos && i < want {
            assert!(buf[i] == r.data[i], "delivered_prefix_exact");
            i += 1;
        }
        if r.fatal != 0 {
            assert!(res.is_err() && res.as_ref().err().unwrap().matches_errno(Errno::new(r.fatal)), "readers_error_is_surfaced");
        }
        match res {
            Ok(()) => assert!(r.pos == want, "ok_means_filled_exactly"),
            Err(e) => {
                assert!(!e.matches_errno(Errno::EINTR), "EINTR_is_retried");
                assert!(r.errored || (r.pos == r.len && r.pos < want), "err_is_readers_error_or_eof_before_full");
            }
        }
    }

    #[kani::proof]
    #[kani::unwind(12)]
    pub fn c15_write_all() {
        let mut w = ScriptWriter { got: [0; DATA], n: 0, calls: 0, fatal: 0 };
        let src: [u8; DATA] = kani::any();
        let len: usize = kani::any();
        kani::assume(len <= DATA);
        let res = w.write_all(&src[..len]);
        assert!(w.n <= len, "never_more_than_given");
        let mut i = 0;
        while i < w.n {
            assert!(w.got[i] == src[i], "bytes_once_in_order");
            i += 1;
        }
        if res.is_ok() {
            assert!(w.n == len, "ok_means_every_byte_delivered");
        }
        if w.fatal != 0 {
            assert!(res.is_err() && res.as_ref().err().unwrap().matches_errno(Errno::new(w.fatal)), "writers_error_is_returned");
        }
        if let Err(e) = &res {
            assert!(!e.matches_errno(Errno::EINTR), "EINTR_is_retried");
        }
    }
}

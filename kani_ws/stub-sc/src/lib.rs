//! Stand-in for crate `sc` (see Cargo.toml).  `syscallN` do not execute an instruction; they ask
//! the *ghost kernel* below for the register value to return and record the call in a trace.
//!
//! * under `cfg(kani)` the register value is symbolic, constrained only by the kernel contract the
//!   harness selected (`kernel::set_mode`);
//! * natively (the replayer) the values come from a script (`kernel::script_push`).
#![no_std]
#![allow(clippy::missing_safety_doc, static_mut_refs)]

pub mod macros;
pub mod nr;
pub mod kernel;

#[inline(never)]
pub unsafe fn syscall0(n: usize) -> usize {
    kernel::dispatch(n, [0, 0, 0, 0, 0, 0, 0], 0)
}
#[inline(never)]
pub unsafe fn syscall1(n: usize, a1: usize) -> usize {
    kernel::dispatch(n, [a1, 0, 0, 0, 0, 0, 0], 1)
}
#[inline(never)]
pub unsafe fn syscall2(n: usize, a1: usize, a2: usize) -> usize {
    kernel::dispatch(n, [a1, a2, 0, 0, 0, 0, 0], 2)
}
#[inline(never)]
pub unsafe fn syscall3(n: usize, a1: usize, a2: usize, a3: usize) -> usize {
    kernel::dispatch(n, [a1, a2, a3, 0, 0, 0, 0], 3)
}
#[inline(never)]
pub unsafe fn syscall4(n: usize, a1: usize, a2: usize, a3: usize, a4: usize) -> usize {
    kernel::dispatch(n, [a1, a2, a3, a4, 0, 0, 0], 4)
}
#[inline(never)]
pub unsafe fn syscall5(n: usize, a1: usize, a2: usize, a3: usize, a4: usize, a5: usize) -> usize {
    kernel::dispatch(n, [a1, a2, a3, a4, a5, 0, 0], 5)
}
#[inline(never)]
pub unsafe fn syscall6(
    n: usize,
    a1: usize,
    a2: usize,
    a3: usize,
    a4: usize,
    a5: usize,
    a6: usize,
) -> usize {
    kernel::dispatch(n, [a1, a2, a3, a4, a5, a6, 0], 6)
}
#[inline(never)]
#[allow(clippy::too_many_arguments)]
pub unsafe fn syscall7(
    n: usize,
    a1: usize,
    a2: usize,
    a3: usize,
    a4: usize,
    a5: usize,
    a6: usize,
    a7: usize,
) -> usize {
    kernel::dispatch(n, [a1, a2, a3, a4, a5, a6, a7], 7)
}

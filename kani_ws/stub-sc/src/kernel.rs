//! Ghost kernel: trace + kernel contracts (DESIGN §2.4).
//!
//! All state is in fixed-size statics so that CBMC sees no heap.  A harness (1) calls `reset()`,
//! (2) selects contracts with `set_mode(..)`, (3) runs the real operation, (4) asserts over the
//! trace / ghost tables.
use crate::nr;
#[cfg(not(kani))]
extern crate std;

pub const TRACE_CAP: usize = 24;

#[derive(Clone, Copy)]
pub struct Call {
    pub nr: usize,
    pub nargs: u8,
    pub args: [usize; 7],
    pub ret: usize,
}

const NO_CALL: Call = Call { nr: usize::MAX, nargs: 0, args: [0; 7], ret: 0 };

pub static mut TRACE: [Call; TRACE_CAP] = [NO_CALL; TRACE_CAP];
pub static mut TRACE_LEN: usize = 0;
/// number of calls that did not fit into TRACE (a harness asserts this is 0)
pub static mut TRACE_OVERFLOW: usize = 0;

// ---- modes -------------------------------------------------------------------------------------
/// every call returns an arbitrary register value
pub const MODE_ANY: u32 = 0;
/// descriptor table contract (fd-creating calls return an error or a fresh fd; close checks)
pub const MODE_FDS: u32 = 1;
/// mapping contract (mmap returns an error or a fresh region; munmap checks)
pub const MODE_MAPS: u32 = 2;
/// process contract (fork/clone: error, 0 = child, pid; execve only fails; exit ends the path)
pub const MODE_PROC: u32 = 4;
/// calls not covered by a selected contract return 0 or an error in [-4095,-1] instead of any value
pub const MODE_ZERO_OR_ERR: u32 = 8;
/// mkdir-family calls log their path argument
pub const MODE_PATHLOG: u32 = 16;

/// ANY-mode refinement: a successful pipe2/socketpair fills its two-int out-parameter with
/// arbitrary non-negative ints (what the kernel does), instead of leaving it untouched
pub const MODE_FILL_OUT: u32 = 32;

/// calls not covered by a selected contract return 0, 1 or an error (counts such as ppoll's)
pub const MODE_SMALL_OR_ERR: u32 = 64;

pub static mut MODE: u32 = MODE_ANY;
/// executions that would issue more than this many calls are not explored (retry loops)
pub static mut CALL_BUDGET: usize = usize::MAX;

pub fn set_call_budget(n: usize) {
    unsafe { CALL_BUDGET = n }
}

pub fn set_mode(m: u32) {
    unsafe { MODE = m }
}

pub fn reset() {
    unsafe {
        TRACE_LEN = 0;
        TRACE_OVERFLOW = 0;
        MODE = MODE_ANY;
        CALL_BUDGET = usize::MAX;
        SCRIPT_LEN = 0;
        SCRIPT_POS = 0;
        SCRIPT_UNDERRUN = 0;
        FD_COUNT = 0;
        FD_BAD_CLOSE = 0;
        FD_NEXT = FD_FIRST;
        let mut i = 0;
        while i < FD_CAP {
            FDS[i] = FdSlot { fd: 0, open: false, by_callee: false };
            i += 1;
        }
        MAP_COUNT = 0;
        MAP_BAD_UNMAP = 0;
        BIG_ARENA_USED = false;
        let mut i = 0;
        while i < MAP_CAP {
            MAPS[i] = MapSlot { addr: 0, len: 0, mapped: false };
            i += 1;
        }
        ROLE_CHILD = false;
        CHILD_RETURNED_FROM_EXIT = false;
        EXIT_CHECK = None;
        PATHLOG_LEN = 0;
        DENTS_SRC = core::ptr::null();
        DENTS_LEN = 0;
        DENTS2_SRC = core::ptr::null();
        DENTS2_LEN = 0;
        DENTS_CALLS = 0;
        TREE_ROOT_FD = -1;
        TREE_CHILD_FD = -1;
        TREE_ROOT_READ = false;
        TREE_CHILD_READ = false;
        TREELOG_LEN = 0;
        NO_FAILURES = false;
    }
}

pub fn trace_len() -> usize {
    unsafe { TRACE_LEN }
}

pub fn trace(i: usize) -> Call {
    unsafe { TRACE[i] }
}

pub fn last() -> Call {
    unsafe { TRACE[TRACE_LEN - 1] }
}

/// number of recorded calls with this syscall number
pub fn count_nr(n: usize) -> usize {
    let mut c = 0;
    let mut i = 0;
    unsafe {
        while i < TRACE_LEN {
            if TRACE[i].nr == n {
                c += 1;
            }
            i += 1;
        }
    }
    c
}

#[inline]
pub fn is_err(ret: usize) -> bool {
    let r = ret as isize;
    (-4095..=-1).contains(&r)
}

// ---- native script (replayer) -------------------------------------------------------------------
pub const SCRIPT_CAP: usize = 64;
pub static mut SCRIPT: [usize; SCRIPT_CAP] = [0; SCRIPT_CAP];
pub static mut SCRIPT_LEN: usize = 0;
pub static mut SCRIPT_POS: usize = 0;
pub static mut SCRIPT_UNDERRUN: usize = 0;

pub fn script_push(v: usize) {
    unsafe {
        SCRIPT[SCRIPT_LEN] = v;
        SCRIPT_LEN += 1;
    }
}

#[cfg(not(kani))]
fn choose(_what: usize) -> usize {
    unsafe {
        if SCRIPT_POS < SCRIPT_LEN {
            let v = SCRIPT[SCRIPT_POS];
            SCRIPT_POS += 1;
            v
        } else {
            SCRIPT_UNDERRUN += 1;
            // out of script: behave like an interrupted/unsupported call so loops terminate
            (-38isize) as usize // ENOSYS
        }
    }
}

#[cfg(kani)]
fn choose(_what: usize) -> usize {
    kani::any()
}

fn choose_err() -> usize {
    let v = choose(1);
    #[cfg(kani)]
    kani::assume(is_err(v));
    v
}

/// when set, no system call fails (used where symbolic failures make a harness intractable: stated there)
pub static mut NO_FAILURES: bool = false;
pub fn set_no_failures(b: bool) {
    unsafe { NO_FAILURES = b }
}

/// 0 or an error
fn choose_zero_or_err() -> usize {
    if unsafe { NO_FAILURES } {
        return 0;
    }
    let v = choose(2);
    #[cfg(kani)]
    kani::assume(v == 0 || is_err(v));
    v
}

// ---- descriptor table ----------------------------------------------------------------------------
pub const FD_CAP: usize = 8;
pub const FD_FIRST: usize = 100;

#[derive(Clone, Copy)]
pub struct FdSlot {
    pub fd: usize,
    pub open: bool,
    /// opened by a syscall issued during the operation under test (as opposed to pre-existing)
    pub by_callee: bool,
}

pub static mut FDS: [FdSlot; FD_CAP] = [FdSlot { fd: 0, open: false, by_callee: false }; FD_CAP];
pub static mut FD_COUNT: usize = 0;
pub static mut FD_NEXT: usize = FD_FIRST;
/// closes of descriptors that are not open (double close) or unknown (foreign close)
pub static mut FD_BAD_CLOSE: usize = 0;

/// declare a descriptor that exists before the operation (owned by the caller or by an object the
/// harness built)
pub fn fd_preexisting(fd: usize) {
    unsafe {
        FDS[FD_COUNT] = FdSlot { fd, open: true, by_callee: false };
        FD_COUNT += 1;
    }
}

fn fd_fresh() -> usize {
    unsafe {
        let fd = FD_NEXT;
        FD_NEXT += 1;
        if FD_COUNT < FD_CAP {
            FDS[FD_COUNT] = FdSlot { fd, open: true, by_callee: true };
            FD_COUNT += 1;
        } else {
            TRACE_OVERFLOW += 1;
        }
        fd
    }
}

pub fn fd_is_open(fd: usize) -> bool {
    let mut i = 0;
    unsafe {
        while i < FD_COUNT {
            if FDS[i].fd == fd && FDS[i].open {
                return true;
            }
            i += 1;
        }
    }
    false
}

/// number of descriptors currently open that were created during the operation
pub fn fds_open_by_callee() -> usize {
    let mut c = 0;
    let mut i = 0;
    unsafe {
        while i < FD_COUNT {
            if FDS[i].open && FDS[i].by_callee {
                c += 1;
            }
            i += 1;
        }
    }
    c
}

/// number of pre-existing descriptors still open
pub fn fds_open_preexisting() -> usize {
    let mut c = 0;
    let mut i = 0;
    unsafe {
        while i < FD_COUNT {
            if FDS[i].open && !FDS[i].by_callee {
                c += 1;
            }
            i += 1;
        }
    }
    c
}

pub fn bad_closes() -> usize {
    unsafe { FD_BAD_CLOSE }
}

fn fd_close(fd: usize) {
    let mut i = 0;
    unsafe {
        while i < FD_COUNT {
            if FDS[i].fd == fd && FDS[i].open {
                FDS[i].open = false;
                return;
            }
            i += 1;
        }
        FD_BAD_CLOSE += 1;
    }
}

// ---- mappings -------------------------------------------------------------------------------------
pub const MAP_CAP: usize = 6;
pub const MAP_FIRST: usize = 0x7000_0000_0000;
pub const MAP_STRIDE: usize = 0x0000_1000_0000;

#[derive(Clone, Copy)]
pub struct MapSlot {
    pub addr: usize,
    pub len: usize,
    pub mapped: bool,
}

pub static mut MAPS: [MapSlot; MAP_CAP] = [MapSlot { addr: 0, len: 0, mapped: false }; MAP_CAP];
pub static mut MAP_COUNT: usize = 0;
pub static mut MAP_BAD_UNMAP: usize = 0;

pub fn map_preexisting(addr: usize, len: usize) {
    unsafe {
        MAPS[MAP_COUNT] = MapSlot { addr, len, mapped: true };
        MAP_COUNT += 1;
    }
}

pub fn maps_live() -> usize {
    let mut c = 0;
    let mut i = 0;
    unsafe {
        while i < MAP_COUNT {
            if MAPS[i].mapped {
                c += 1;
            }
            i += 1;
        }
    }
    c
}

pub fn bad_unmaps() -> usize {
    unsafe { MAP_BAD_UNMAP }
}

/// backing store handed out by the mmap contract, so that code which reads the mapping it was just
/// given (setup_io_uring reads ring parameters through it) dereferences real memory
pub static mut ARENA: [[u64; 64]; MAP_CAP] = [[0; 64]; MAP_CAP];
/// one large region for the allocator harness (dlmalloc asks the system for >= 64 KiB at a time)
pub const BIG_ARENA_WORDS: usize = 20 * 1024;
pub static mut BIG_ARENA: [u64; BIG_ARENA_WORDS] = [0; BIG_ARENA_WORDS];
pub static mut BIG_ARENA_USED: bool = false;
/// mmap requests larger than a small ring mapping are served from BIG_ARENA (once) when this is set
pub const MODE_BIG_ARENA: u32 = 256;

fn map_fresh(len: usize) -> usize {
    unsafe {
        let addr = if MAP_COUNT < MAP_CAP {
            // what the kernel would have stored in an io_uring ring mapping at the offsets the
            // io_uring_setup contract above announces: ring_mask / ring_entries of a 4-entry ring
            let w = ARENA[MAP_COUNT].as_mut_ptr() as *mut u32;
            *w.add(2) = 3;
            *w.add(3) = 4;
            *w.add(10) = 3;
            *w.add(11) = 4;
            ARENA[MAP_COUNT].as_ptr() as usize
        } else {
            MAP_FIRST
        };
        if MAP_COUNT < MAP_CAP {
            MAPS[MAP_COUNT] = MapSlot { addr, len, mapped: true };
            MAP_COUNT += 1;
        } else {
            TRACE_OVERFLOW += 1;
        }
        addr
    }
}

fn map_unmap(addr: usize, len: usize) {
    let mut i = 0;
    unsafe {
        while i < MAP_COUNT {
            if MAPS[i].mapped && MAPS[i].addr == addr && MAPS[i].len == len {
                MAPS[i].mapped = false;
                return;
            }
            i += 1;
        }
        MAP_BAD_UNMAP += 1;
    }
}

// ---- process role ---------------------------------------------------------------------------------
pub static mut ROLE_CHILD: bool = false;
pub static mut CHILD_RETURNED_FROM_EXIT: bool = false;
/// the wait status the WAIT4 contract stored last
pub static mut LAST_WSTATUS: i32 = 0;
pub fn last_wstatus() -> i32 {
    unsafe { LAST_WSTATUS }
}

pub fn role_is_child() -> bool {
    unsafe { ROLE_CHILD }
}

/// called by the EXIT contract just before the path ends (the process is gone): lets a harness
/// state what must hold *at* exit (e.g. what the child reported through the sync pipe)
pub static mut EXIT_CHECK: Option<fn()> = None;

pub fn set_exit_check(f: fn()) {
    unsafe { EXIT_CHECK = Some(f) }
}

/// bytes a READ of the process contract delivers (the other end's message)
pub const READ_FILL_CAP: usize = 8;

// ---- path log (mkdir family) ----------------------------------------------------------------------
pub const PATHLOG_CAP: usize = 8;
pub const PATH_MAX_LOGGED: usize = 16;

#[derive(Clone, Copy)]
pub struct PathRec {
    pub bytes: [u8; PATH_MAX_LOGGED],
    pub len: usize,
    pub ret: usize,
}

pub static mut PATHLOG: [PathRec; PATHLOG_CAP] =
    [PathRec { bytes: [0; PATH_MAX_LOGGED], len: 0, ret: 0 }; PATHLOG_CAP];
pub static mut PATHLOG_LEN: usize = 0;

pub fn pathlog_len() -> usize {
    unsafe { PATHLOG_LEN }
}

pub fn pathlog(i: usize) -> PathRec {
    unsafe { PATHLOG[i] }
}

unsafe fn log_path(ptr: usize, ret: usize) {
    let p = ptr as *const u8;
    let mut rec = PathRec { bytes: [0; PATH_MAX_LOGGED], len: 0, ret };
    let mut i = 0;
    while i < PATH_MAX_LOGGED {
        let b = *p.add(i);
        if b == 0 {
            break;
        }
        rec.bytes[i] = b;
        i += 1;
    }
    rec.len = i;
    if PATHLOG_LEN < PATHLOG_CAP {
        PATHLOG[PATHLOG_LEN] = rec;
        PATHLOG_LEN += 1;
    } else {
        TRACE_OVERFLOW += 1;
    }
}

// ---- directory stream (getdents64) -------------------------------------------------------------------
/// bytes the next GETDENTS64 call delivers (set by the harness: a well-formed record sequence);
/// consumed by the first call, later calls return 0 (end of directory)
pub static mut DENTS_SRC: *const u8 = core::ptr::null();
pub static mut DENTS_LEN: usize = 0;
pub const MODE_DENTS: u32 = 128;
/// copy_file_range returns any count <= its length argument (short copies, 0 = end) or an error
pub const MODE_SHORT_COUNTS: u32 = 512;

/// second batch for GETDENTS64 (delivered by the second call), so that a stream spanning two
/// kernel batches can be scripted
pub static mut DENTS2_SRC: *const u8 = core::ptr::null();
pub static mut DENTS2_LEN: usize = 0;
pub static mut DENTS_CALLS: usize = 0;

/// ghost directory tree for remove_all: getdents64 answers per descriptor (TREE_ROOT_FD gets the first
/// buffer once, the first directory opened with openat gets the second buffer once, everything else is
/// empty), and every openat / unlinkat is logged with its directory descriptor, name, flags and answer
pub const MODE_TREE: u32 = 1024;
pub static mut TREE_ROOT_FD: i32 = -1;
pub static mut TREE_CHILD_FD: i32 = -1;
pub static mut TREE_ROOT_READ: bool = false;
pub static mut TREE_CHILD_READ: bool = false;
pub const TREELOG_CAP: usize = 8;
#[derive(Clone, Copy)]
pub struct TreeRec {
    pub nr: usize,
    pub dirfd: i32,
    pub name: [u8; 8],
    pub len: usize,
    pub flags: usize,
    pub ret: usize,
}
pub static mut TREELOG: [TreeRec; TREELOG_CAP] = [TreeRec { nr: 0, dirfd: 0, name: [0; 8], len: 0, flags: 0, ret: 0 }; TREELOG_CAP];
pub static mut TREELOG_LEN: usize = 0;
pub fn set_tree_root(fd: i32) {
    unsafe { TREE_ROOT_FD = fd }
}
pub fn tree_child_fd() -> i32 {
    unsafe { TREE_CHILD_FD }
}
pub fn treelog_len() -> usize {
    unsafe { TREELOG_LEN }
}
pub fn treelog(i: usize) -> TreeRec {
    unsafe { TREELOG[i] }
}
unsafe fn log_tree(n: usize, args: &[usize; 7], ret: usize) {
    let p = args[1] as *const u8;
    let mut rec = TreeRec { nr: n, dirfd: args[0] as i32, name: [0; 8], len: 0, flags: args[2], ret };
    let mut i = 0;
    while i < 8 {
        let b = *p.add(i);
        if b == 0 {
            break;
        }
        rec.name[i] = b;
        i += 1;
    }
    rec.len = i;
    if TREELOG_LEN < TREELOG_CAP {
        TREELOG[TREELOG_LEN] = rec;
        TREELOG_LEN += 1;
    } else {
        TRACE_OVERFLOW += 1;
    }
    if n == nr::OPENAT && !is_err(ret) && TREE_CHILD_FD == -1 {
        TREE_CHILD_FD = ret as i32;
    }
}

pub fn set_dents2(src: *const u8, len: usize) {
    unsafe {
        DENTS2_SRC = src;
        DENTS2_LEN = len;
    }
}

pub fn set_dents(src: *const u8, len: usize) {
    unsafe {
        DENTS_SRC = src;
        DENTS_LEN = len;
    }
}

// ---- dispatch -------------------------------------------------------------------------------------
fn creates_fd(n: usize) -> bool {
    n == nr::OPEN
        || n == nr::OPENAT
        || n == nr::SOCKET
        || n == nr::ACCEPT
        || n == nr::ACCEPT4
        || n == nr::EPOLL_CREATE
        || n == nr::EPOLL_CREATE1
        || n == nr::IO_URING_SETUP
        || n == nr::DUP
        || n == nr::EVENTFD2
        || n == nr::TIMERFD_CREATE
        || n == nr::MEMFD_CREATE
        || n == nr::PIDFD_OPEN
}

pub unsafe fn dispatch(n: usize, args: [usize; 7], nargs: u8) -> usize {
    let mode = MODE;
    if TRACE_LEN >= CALL_BUDGET {
        #[cfg(kani)]
        kani::assume(false);
        #[cfg(not(kani))]
        panic!("stub kernel: call budget exhausted (the operation keeps issuing system calls)");
    }
    let ret: usize;
    if mode & MODE_FDS != 0 && creates_fd(n) {
        let fail = !NO_FAILURES && choose(3) != 0;
        ret = if fail { choose_err() } else { fd_fresh() };
        if !fail && n == nr::IO_URING_SETUP {
            // kernel contract of io_uring_setup: the params out-parameter (struct io_uring_params,
            // 120 bytes = 30 u32 words) comes back with non-zero entry counts, a feature word and
            // the ring offsets
            let p = args[1] as *mut u32;
            // (4 entries each: consistent with the ring words the mmap contract below stores)
            *p = 4;
            *p.add(1) = 4;
            *p.add(5) = choose(6) as u32; // features (bit 0: IORING_FEAT_SINGLE_MMAP)
            // sq_off: head, tail, ring_mask, ring_entries, flags, dropped, array
            *p.add(10) = 0;
            *p.add(11) = 4;
            *p.add(12) = 8;
            *p.add(13) = 12;
            *p.add(14) = 16;
            *p.add(15) = 20;
            *p.add(16) = 24;
            // cq_off: head, tail, ring_mask, ring_entries, overflow, cqes, flags
            *p.add(20) = 32;
            *p.add(21) = 36;
            *p.add(22) = 40;
            *p.add(23) = 44;
            *p.add(24) = 48;
            *p.add(25) = 64;
            *p.add(26) = 0;
        }
    } else if mode & MODE_FDS != 0 && (n == nr::DUP2 || n == nr::DUP3) {
        // dup2/dup3(old, new): on success `new` is (re)opened — it names a descriptor the caller
        // chose, so it is recorded as open-by-callee only if it was not open before
        let fail = choose(3) != 0;
        if fail {
            ret = choose_err();
        } else {
            let newfd = args[1];
            if !fd_is_open(newfd) {
                if FD_COUNT < FD_CAP {
                    FDS[FD_COUNT] = FdSlot { fd: newfd, open: true, by_callee: true };
                    FD_COUNT += 1;
                } else {
                    TRACE_OVERFLOW += 1;
                }
            }
            ret = newfd;
        }
    } else if mode & MODE_FDS != 0 && (n == nr::PIPE2 || n == nr::PIPE || n == nr::SOCKETPAIR) {
        let fail = choose(3) != 0;
        if fail {
            ret = choose_err();
        } else {
            let out = (if n == nr::SOCKETPAIR { args[3] } else { args[0] }) as *mut i32;
            let a = fd_fresh();
            let b = fd_fresh();
            *out = a as i32;
            *out.add(1) = b as i32;
            ret = 0;
        }
    } else if mode & MODE_FDS != 0 && n == nr::CLOSE {
        fd_close(args[0]);
        // close releases the descriptor whatever it returns (Linux semantics)
        ret = choose_zero_or_err();
    } else if mode & MODE_BIG_ARENA != 0 && n == nr::MMAP {
        // the operating system grants at most one region of up to 160 KiB, or refuses
        let fail = choose(3) != 0;
        if fail || BIG_ARENA_USED || args[1] > BIG_ARENA_WORDS * 8 {
            ret = (0isize - 12) as usize; // -ENOMEM
        } else {
            BIG_ARENA_USED = true;
            ret = BIG_ARENA.as_ptr() as usize;
        }
    } else if mode & MODE_BIG_ARENA != 0 && (n == nr::MUNMAP || n == nr::MREMAP) {
        ret = (0isize - 22) as usize; // -EINVAL: the harness region is never given back / resized
    } else if mode & MODE_MAPS != 0 && n == nr::MMAP {
        let fail = choose(3) != 0;
        ret = if fail { choose_err() } else { map_fresh(args[1]) };
    } else if mode & MODE_MAPS != 0 && n == nr::MUNMAP {
        map_unmap(args[0], args[1]);
        ret = choose_zero_or_err();
    } else if mode & MODE_PROC != 0 && (n == nr::FORK || n == nr::VFORK || n == nr::CLONE || n == nr::CLONE3) {
        let k = choose(4);
        if k == 0 {
            ret = choose_err();
        } else if k == 1 {
            ROLE_CHILD = true;
            ret = 0;
        } else {
            ret = 4242; // a pid
        }
    } else if mode & MODE_PROC != 0 && n == nr::WAIT4 {
        // wait4 contract: an error, 0 (WNOHANG and nothing to report) or a pid; on a reaped child the
        // kernel stores the wait status through the second argument
        let v = choose(2);
        #[cfg(kani)]
        kani::assume(v <= 1 || is_err(v));
        if v == 1 && args[1] != 0 {
            let st = choose(4) as i32;
            *(args[1] as *mut i32) = st;
            LAST_WSTATUS = st;
        }
        ret = v;
    } else if mode & MODE_PROC != 0 && (n == nr::EXECVE || n == nr::EXECVEAT) {
        // success never returns to the caller's code
        let ok = choose(3) == 0;
        #[cfg(kani)]
        kani::assume(!ok);
        let _ = ok;
        ret = choose_err();
    } else if mode & MODE_PROC != 0 && n == nr::READ {
        // the peer's message: k <= min(len, 8) arbitrary bytes, or an error
        let fail = choose(3) != 0;
        if fail {
            ret = choose_err();
        } else {
            let k = choose(7);
            #[cfg(kani)]
            kani::assume(k <= args[2] && k <= READ_FILL_CAP);
            let out = args[1] as *mut u8;
            let mut i = 0;
            while i < k && i < READ_FILL_CAP {
                *out.add(i) = choose(8) as u8;
                i += 1;
            }
            ret = k;
        }
    } else if mode & MODE_PROC != 0 && (n == nr::EXIT || n == nr::EXIT_GROUP) {
        record(n, args, nargs, 0);
        if let Some(f) = EXIT_CHECK {
            f();
        }
        // the process is gone: this path ends here
        #[cfg(kani)]
        kani::assume(false);
        CHILD_RETURNED_FROM_EXIT = true;
        ret = 0;
        #[cfg(not(kani))]
        std::process::exit(99);
    } else if mode & MODE_SHORT_COUNTS != 0 && n == nr::COPY_FILE_RANGE {
        let fail = choose(3) != 0;
        if fail {
            ret = choose_err();
        } else {
            let k = choose(7);
            #[cfg(kani)]
            kani::assume(k <= args[4]);
            ret = k;
        }
    } else if mode & MODE_DENTS != 0 && n == nr::GETDENTS64 {
        let out = args[1] as *mut u8;
        let (src, len) = if mode & MODE_TREE != 0 {
            let fd = args[0] as i32;
            if fd == TREE_ROOT_FD && !TREE_ROOT_READ {
                TREE_ROOT_READ = true;
                (DENTS_SRC, DENTS_LEN)
            } else if fd == TREE_CHILD_FD && fd != -1 && !TREE_CHILD_READ {
                TREE_CHILD_READ = true;
                (DENTS2_SRC, DENTS2_LEN)
            } else {
                (core::ptr::null(), 0)
            }
        } else if DENTS_CALLS == 0 { (DENTS_SRC, DENTS_LEN) } else if DENTS_CALLS == 1 { (DENTS2_SRC, DENTS2_LEN) } else { (core::ptr::null(), 0) };
        DENTS_CALLS += 1;
        let k = if len <= args[2] { len } else { 0 };
        let mut i = 0;
        while i < k {
            *out.add(i) = *src.add(i);
            i += 1;
        }
        ret = k;
    } else if mode & MODE_PATHLOG != 0 && (n == nr::MKDIR || n == nr::MKDIRAT) {
        let r = choose_zero_or_err();
        let p = if n == nr::MKDIRAT { args[1] } else { args[0] };
        log_path(p, r);
        ret = r;
    } else if mode & MODE_SMALL_OR_ERR != 0 {
        let v = choose(2);
        #[cfg(kani)]
        kani::assume(v <= 1 || is_err(v));
        ret = v;
    } else if mode & MODE_ZERO_OR_ERR != 0 {
        ret = choose_zero_or_err();
    } else {
        ret = choose(0);
        if mode & MODE_FILL_OUT != 0 && (n == nr::PIPE2 || n == nr::PIPE) && !is_err(ret) {
            let out = args[0] as *mut i32;
            let a = choose(5) as i32;
            let b = choose(5) as i32;
            #[cfg(kani)]
            kani::assume(a >= 0 && b >= 0);
            *out = a;
            *out.add(1) = b;
        }
    }
    if mode & MODE_TREE != 0 && (n == nr::OPENAT || n == nr::UNLINKAT) {
        log_tree(n, &args, ret);
    }
    record(n, args, nargs, ret);
    ret
}

unsafe fn record(n: usize, args: [usize; 7], nargs: u8, ret: usize) {
    if TRACE_LEN < TRACE_CAP {
        TRACE[TRACE_LEN] = Call { nr: n, nargs, args, ret };
        TRACE_LEN += 1;
    } else {
        TRACE_OVERFLOW += 1;
    }
}

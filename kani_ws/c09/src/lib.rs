//! C09 — every raw syscall wrapper of rusl against the register-decoding contract, with the stub
//! kernel in mode ANY (each `syscall` returns an arbitrary usize).  `gen.rs` is generated on every
//! run from contracts/C09/wrappers.toml + the mechanical enumeration of /repo/rusl/src.
#![allow(unused_imports, clippy::all)]
use core::sync::atomic::AtomicU32;
use rusl::error::Errno;
use rusl::platform::*;
use rusl::string::unix_str::UnixStr;
use rusl::Error;
use sc::kernel;

pub fn is_err(ret: usize) -> bool {
    let r = ret as isize;
    r >= -4095 && r <= -1
}

#[cfg(kani)]
pub fn fd() -> Fd {
    let v: i32 = kani::any();
    kani::assume(v >= 0);
    Fd::try_new(v).unwrap()
}

pub fn us() -> &'static UnixStr {
    unsafe { UnixStr::from_bytes_unchecked(b"p\0") }
}

pub fn z<T>() -> T {
    unsafe { core::mem::zeroed() }
}

/// The contract of C09 for one call: issued exactly once; Err iff the register is in [-4095,-1];
/// errno is the negated register (a positive code 1..=4095); Ok carries the register unchanged.
pub fn check<T>(r: &Result<T, Error>, carry: impl Fn(&T, usize) -> bool) {
    assert!(kernel::trace_len() == 1, "issued_exactly_once");
    let ret = kernel::last().ret;
    decode(r, ret, carry);
}

pub fn decode<T>(r: &Result<T, Error>, ret: usize, carry: impl Fn(&T, usize) -> bool) {
    match r {
        Err(e) => {
            assert!(is_err(ret), "err_only_for_register_in_-4095..-1");
            let want = (0isize - ret as isize) as i32;
            assert!(e.code == Some(Errno::new(want)), "errno_is_negated_register");
            let c = e.code.unwrap().raw();
            assert!(c >= 1 && c <= 4095, "errno_positive_1..4095");
        }
        Ok(v) => {
            assert!(!is_err(ret), "ok_only_for_register_outside_-4095..-1");
            assert!(carry(v, ret), "success_value_intact");
        }
    }
}

pub fn check_execve(r: &Result<(), Error>) {
    assert!(kernel::trace_len() == 1, "issued_exactly_once");
    let ret = kernel::last().ret;
    // execve returns to the caller only on failure: the stub therefore only produces error registers
    if is_err(ret) {
        assert!(r.is_err(), "execve_returning_is_an_error");
        decode(r, ret, |_, _| true);
    }
}

pub fn check_openflags(r: &Result<OpenFlags, Error>) {
    check(r, |v, ret| v.bits().value() == ret as i32);
}

pub fn check_accept_unix(r: &Result<(Fd, SocketArgUnix), Error>) {
    check(r, |v, ret| v.0.value() == ret as i32);
}

pub fn check_accept_inet(r: &Result<(Fd, SocketAddressInet), Error>) {
    check(r, |v, ret| v.0.value() == ret as i32);
}

/// pipe/pipe2: the stub fills the two-int out-parameter with arbitrary non-negative ints on a
/// success register (kernel contract), so the plain contract applies.
pub fn check_pipe<T>(r: &Result<T, Error>) {
    check(r, |_, _| true);
}

/// dup2/dup3: one call per invocation, except that a call that returned exactly -EBUSY may be
/// repeated; the last register is decoded like any other.  (The loop carries no state, so the
/// iterations explored under the call budget cover every iteration.)
pub fn check_dup(r: &Result<(), Error>) {
    let n = kernel::trace_len();
    assert!(n >= 1, "issued_at_least_once");
    let ebusy = (0isize - Errno::EBUSY.raw() as isize) as usize;
    let mut i = 0;
    while i + 1 < n {
        assert!(kernel::trace(i).ret == ebusy, "retry_only_after_-EBUSY");
        i += 1;
    }
    decode(r, kernel::last().ret, |_, _| true);
}

#[cfg(kani)]
pub mod proofs {
    use super::*;
    include!("gen.rs");

    // the three building blocks every wrapper uses, checked directly as well
    #[kani::proof]
    pub fn c09_is_syscall_error_threshold() {
        let v: usize = kani::any();
        assert!(rusl::platform::is_syscall_error(v) == is_err(v), "threshold_is_-4095");
    }
}

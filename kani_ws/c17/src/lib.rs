//! C17 / C18 — Kani harnesses on the real `rusl::platform::IoUring`, built over harness-owned ring
//! memory through the `verif-hooks` constructor.
#![allow(unused_imports, clippy::all)]
use core::ptr::NonNull;
use core::sync::atomic::{AtomicU32, Ordering};
use rusl::platform::{
    Fd, IoUring, IoUringCompletionQueueEntry, IoUringParamFlags, IoUringSubmissionQueueEntry, VerifRingParts,
};
use sc::kernel;

pub const MAX_ENTRIES: usize = 8;

/// ring memory the "kernel" shares with the application
pub struct RingMem {
    pub sq_khead: AtomicU32,
    pub sq_ktail: AtomicU32,
    pub sq_kflags: AtomicU32,
    pub sq_kdropped: AtomicU32,
    pub sq_array: [AtomicU32; MAX_ENTRIES],
    pub cq_khead: AtomicU32,
    pub cq_ktail: AtomicU32,
    pub cq_koverflow: AtomicU32,
    // twice the entries: SQE128 / CQE32 double the slot size
    pub sqes: [IoUringSubmissionQueueEntry; 2 * MAX_ENTRIES],
    pub cqes: [IoUringCompletionQueueEntry; 2 * MAX_ENTRIES],
}

impl RingMem {
    pub fn new() -> Self {
        unsafe { core::mem::zeroed() }
    }
}

pub fn nn<T>(r: &T) -> NonNull<T> {
    NonNull::from(r)
}

#[allow(clippy::too_many_arguments)]
pub fn ring_over(
    m: &mut RingMem,
    flags: IoUringParamFlags,
    entries: u32,
    cq_entries: u32,
    sq_head: u32,
    sq_tail: u32,
    sq_ring_ptr: usize,
    sq_ring_size: usize,
    cq_ring_ptr: usize,
    cq_ring_size: usize,
    fd: i32,
) -> IoUring {
    let parts = VerifRingParts {
        fd: Fd::try_new(fd).unwrap(),
        flags,
        sq_ring_size,
        sq_ring_ptr,
        sq_khead: nn(&m.sq_khead),
        sq_ktail: nn(&m.sq_ktail),
        sq_kflags: nn(&m.sq_kflags),
        sq_kdropped: nn(&m.sq_kdropped),
        sq_array: nn(&m.sq_array[0]),
        sq_head,
        sq_tail,
        sq_ring_mask: entries - 1,
        sq_ring_entries: entries,
        sqes: NonNull::new(m.sqes.as_mut_ptr()).unwrap(),
        cq_ring_size,
        cq_ring_ptr,
        cq_khead: nn(&m.cq_khead),
        cq_ktail: nn(&m.cq_ktail),
        cq_koverflow: nn(&m.cq_koverflow),
        cq_ring_mask: cq_entries - 1,
        cq_ring_entries: cq_entries,
        cqes: NonNull::new(m.cqes.as_mut_ptr()).unwrap(),
    };
    unsafe { IoUring::verif_from_raw_parts(parts) }
}

#[cfg(kani)]
pub fn any_entries() -> u32 {
    let k: u8 = kani::any();
    kani::assume(k < 4);
    1u32 << k // 1, 2, 4, 8
}

#[cfg(kani)]
pub fn any_flags() -> (IoUringParamFlags, bool, bool) {
    let sqe128: bool = kani::any();
    let cqe32: bool = kani::any();
    let sqpoll: bool = kani::any();
    let mut f = IoUringParamFlags::empty();
    if sqe128 {
        f = f | IoUringParamFlags::IORING_SETUP_SQE128;
    }
    if cqe32 {
        f = f | IoUringParamFlags::IORING_SETUP_CQE32;
    }
    if sqpoll {
        f = f | IoUringParamFlags::IORING_SETUP_SQPOLL;
    }
    (f, sqe128, cqe32)
}

#[cfg(kani)]
pub mod proofs {
    use super::*;

    /// get_next_sqe_slot: for every u32 value of tail/khead consistent with the ring invariant
    #[kani::proof]
    pub fn c17_get_next_sqe_slot() {
        let mut m = RingMem::new();
        let entries = any_entries();
        let (flags, sqe128, _) = any_flags();
        let tail: u32 = kani::any();
        let khead: u32 = kani::any();
        let head: u32 = kani::any();
        kani::assume(tail.wrapping_sub(khead) <= entries); // ring invariant
        m.sq_khead.store(khead, Ordering::Relaxed);
        let base = m.sqes.as_mut_ptr();
        let mut ring = ring_over(&mut m, flags, entries, entries, head, tail, 0, 0, 0, 0, 3);
        let r = ring.get_next_sqe_slot(); // must not panic anywhere in the u32 range
        let (h2, t2) = ring.verif_sq_counters();
        let room = tail.wrapping_sub(khead) < entries;
        assert!(r.is_some() == room, "slot_iff_fewer_than_entries_outstanding");
        if let Some(p) = r {
            let idx = ((tail & (entries - 1)) << (sqe128 as u32)) as usize;
            assert!(p == unsafe { base.add(idx) }, "slot_is_tail_masked");
            assert!(idx + (sqe128 as usize) < 2 * MAX_ENTRIES, "slot_inside_the_sqe_array");
            assert!(t2 == tail.wrapping_add(1), "tail_advances_by_one_wrapping");
        } else {
            assert!(t2 == tail, "tail_unchanged_when_full");
        }
        assert!(h2 == head, "head_untouched");
        kani::cover!(tail == u32::MAX && r.is_some(), "slot at the wrap");
        core::mem::forget(ring);
    }


    #[kani::proof]
    pub fn c17_flush_submission_queue() {
        let mut m = RingMem::new();
        let entries = any_entries();
        let (flags, _, _) = any_flags();
        let tail: u32 = kani::any();
        let khead: u32 = kani::any();
        let head: u32 = kani::any();
        let ktail0: u32 = kani::any();
        kani::assume(tail.wrapping_sub(khead) <= entries);
        m.sq_khead.store(khead, Ordering::Relaxed);
        m.sq_ktail.store(ktail0, Ordering::Relaxed);
        let mp: *const RingMem = &m;
        let mut ring = ring_over(&mut m, flags, entries, entries, head, tail, 0, 0, 0, 0, 3);
        let n = ring.flush_submission_queue();
        let (h2, t2) = ring.verif_sq_counters();
        let ktail = unsafe { (*mp).sq_ktail.load(Ordering::Relaxed) };
        assert!(n == tail.wrapping_sub(khead), "flush_returns_outstanding_count_wrapping");
        assert!(h2 == tail && t2 == tail, "local_head_catches_up");
        if head != tail {
            assert!(ktail == tail, "kernel_tail_published");
        } else {
            assert!(ktail == ktail0, "nothing_to_publish");
        }
        kani::cover!(tail < khead, "counters wrapped");
        core::mem::forget(ring);
    }

    #[kani::proof]
    pub fn c17_get_next_cqe() {
        let mut m = RingMem::new();
        let entries = any_entries();
        let (flags, _, cqe32) = any_flags();
        let ktail: u32 = kani::any();
        let khead: u32 = kani::any();
        kani::assume(ktail.wrapping_sub(khead) <= entries); // the kernel never posts more than fit
        m.cq_khead.store(khead, Ordering::Relaxed);
        m.cq_ktail.store(ktail, Ordering::Relaxed);
        let base = m.cqes.as_ptr();
        let mp: *const RingMem = &m;
        let mut ring = ring_over(&mut m, flags, entries, entries, 0, 0, 0, 0, 0, 0, 3);
        let r = ring.get_next_cqe().map(|e| e as *const IoUringCompletionQueueEntry);
        let khead2 = unsafe { (*mp).cq_khead.load(Ordering::Relaxed) };
        assert!(r.is_some() == (ktail != khead), "completion_iff_posted_and_unreaped");
        if let Some(p) = r {
            let idx = ((khead & (entries - 1)) << (cqe32 as u32)) as usize;
            assert!(p == unsafe { base.add(idx) }, "completion_is_head_masked");
            assert!(khead2 == khead.wrapping_add(1), "head_advances_by_one_wrapping");
        } else {
            assert!(khead2 == khead, "head_unchanged_when_empty");
        }
        kani::cover!(ktail < khead, "tail wrapped, head not yet");
        core::mem::forget(ring);
    }

    // ------------------------------------------------------------------ C17: bounded protocol driver
    /// The property's own observable: sequence numbers in user_data.  Up to 6 steps, each chosen
    /// symbolically among {app: get slot + fill, app: flush, kernel: consume everything published,
    /// kernel: post one completion if there is room, app: reap}, on a ring of 1, 2 or 4 entries whose
    /// counters start at ANY u32 value (so the wrap is inside the domain).  Every submission the kernel
    /// consumes is the next one the application filled (exactly once, in order); a slot is never handed
    /// out over an unconsumed entry; every completion reaped is the next one the kernel posted.
    #[kani::proof]
    #[kani::unwind(8)]
    pub fn c17_protocol_driver() {
        let mut m = RingMem::new();
        let k: u8 = kani::any();
        kani::assume(k < 3);
        let entries = 1u32 << k; // 1, 2, 4
        let mask = entries - 1;
        let sq0: u32 = kani::any(); // both SQ counters start here (empty ring)
        let cq0: u32 = kani::any();
        m.sq_khead.store(sq0, Ordering::Relaxed);
        m.sq_ktail.store(sq0, Ordering::Relaxed);
        m.cq_khead.store(cq0, Ordering::Relaxed);
        m.cq_ktail.store(cq0, Ordering::Relaxed);
        let mp: *mut RingMem = &mut m;
        let mut ring = ring_over(unsafe { &mut *mp }, IoUringParamFlags::empty(), entries, entries, sq0, sq0, 0, 0, 0, 0, 3);
        let mut filled: u64 = 0; // sequence number of the next submission the app fills
        let mut consumed: u64 = 0; // ... the kernel expects next
        let mut posted: u64 = 0; // completions posted
        let mut reaped: u64 = 0; // completions reaped
        let mut step = 0;
        while step < 6 {
            let what: u8 = kani::any();
            kani::assume(what < 5);
            unsafe {
                match what {
                    0 => {
                        // app: get a slot and fill it
                        if let Some(p) = ring.get_next_sqe_slot() {
                            // never over an entry the kernel has not consumed
                            assert!(filled - consumed < entries as u64, "slot_only_when_the_kernel_consumed_the_previous_user");
                            (*p).0.user_data = filled;
                            filled += 1;
                        } else {
                            assert!(filled - consumed == entries as u64, "refused_only_when_full");
                        }
                    }
                    1 => {
                        let _ = ring.flush_submission_queue();
                    }
                    2 => {
                        // kernel: consume khead..ktail in order
                        let ktail = (*mp).sq_ktail.load(Ordering::Relaxed);
                        let mut khead = (*mp).sq_khead.load(Ordering::Relaxed);
                        let mut guard = 0;
                        while khead != ktail && guard < 4 {
                            let e = &(*mp).sqes[(khead & mask) as usize];
                            assert!(e.0.user_data == consumed, "kernel_sees_each_submission_once_in_order");
                            consumed += 1;
                            khead = khead.wrapping_add(1);
                            guard += 1;
                        }
                        assert!(khead == ktail, "published_window_never_exceeds_the_ring");
                        (*mp).sq_khead.store(khead, Ordering::Relaxed);
                    }
                    3 => {
                        // kernel: post one completion if the CQ has room
                        let kh = (*mp).cq_khead.load(Ordering::Relaxed);
                        let kt = (*mp).cq_ktail.load(Ordering::Relaxed);
                        if kt.wrapping_sub(kh) < entries {
                            (*mp).cqes[(kt & mask) as usize].0.user_data = posted;
                            posted += 1;
                            (*mp).cq_ktail.store(kt.wrapping_add(1), Ordering::Relaxed);
                        }
                    }
                    _ => {
                        // app: reap
                        match ring.get_next_cqe() {
                            Some(e) => {
                                assert!(reaped < posted, "reaped_only_what_was_posted");
                                assert!(e.0.user_data == reaped, "completions_once_in_order_with_the_kernels_content");
                                reaped += 1;
                            }
                            None => assert!(reaped == posted, "none_only_when_nothing_is_pending"),
                        }
                    }
                }
            }
            step += 1;
        }
        assert!(consumed <= filled && reaped <= posted, "never_more_out_than_in");
        kani::cover!(consumed == 2 && sq0 == u32::MAX, "two submissions consumed across the wrap");
        kani::cover!(reaped == 2 && cq0 == u32::MAX, "two completions reaped across the wrap");
        core::mem::forget(ring);
    }

    // ------------------------------------------------------------------ C18: teardown
    /// Drop for IoUring under the mapping + descriptor contracts of the stub kernel: the ring's
    /// descriptor and each *distinct* mapping are released exactly once, nothing else is touched —
    /// for separate SQ/CQ ring mappings and for the single-mmap layout (cq ring == sq ring) that
    /// setup_io_uring produces on kernels with IORING_FEAT_SINGLE_MMAP.
    #[kani::proof]
    #[kani::unwind(10)]
    pub fn c18_drop_releases_everything_exactly_once() {
        kernel::reset();
        kernel::set_mode(kernel::MODE_FDS | kernel::MODE_MAPS);
        let mut m = RingMem::new();
        let entries = any_entries();
        let (flags, sqe128, _) = any_flags();
        let single: bool = kani::any();
        let sq_ptr: usize = 0x7100_0000_0000;
        let sq_size: usize = kani::any();
        kani::assume(sq_size > 0 && sq_size <= 1 << 20);
        let cq_size: usize = if single { sq_size } else { kani::any() };
        kani::assume(cq_size > 0 && cq_size <= 1 << 20);
        let cq_ptr: usize = if single { sq_ptr } else { 0x7200_0000_0000 };
        let sqe_bytes = (entries as usize) * if sqe128 { 128 } else { 64 };
        let sqes_addr = m.sqes.as_ptr() as usize;
        kernel::map_preexisting(sqes_addr, sqe_bytes);
        kernel::map_preexisting(sq_ptr, sq_size);
        if !single {
            kernel::map_preexisting(cq_ptr, cq_size);
        }
        // an unrelated mapping and descriptor of the process: must survive
        kernel::map_preexisting(0x7300_0000_0000, 4096);
        let fd: i32 = 7;
        kernel::fd_preexisting(fd as usize);
        kernel::fd_preexisting(8);
        let ring = ring_over(&mut m, flags, entries, entries, 0, 0, sq_ptr, sq_size, cq_ptr, cq_size, fd);
        drop(ring);
        assert!(kernel::bad_unmaps() == 0, "no_mapping_unmapped_twice_or_foreign");
        assert!(kernel::maps_live() == 1, "every_ring_mapping_released_and_nothing_else");
        assert!(kernel::bad_closes() == 0, "no_double_or_foreign_close");
        assert!(kernel::fds_open_preexisting() == 1 && kernel::fd_is_open(8) && !kernel::fd_is_open(fd as usize), "ring_fd_closed_once_others_untouched");
        let want_unmaps = if single { 2 } else { 3 };
        assert!(kernel::count_nr(sc::nr::MUNMAP) == want_unmaps, "one_munmap_per_distinct_mapping");
        assert!(kernel::count_nr(sc::nr::CLOSE) == 1, "one_close");
        assert!(kernel::trace_len() == want_unmaps + 1, "no_other_system_call");
        kani::cover!(single, "single-mmap layout");
        kani::cover!(!single, "two ring mappings");
    }
}

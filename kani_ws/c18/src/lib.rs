//! C18 (submission side) — every public SQE constructor of rusl encodes its arguments into the 64-byte
//! io_uring_sqe exactly where the kernel ABI (include/uapi/linux/io_uring.h, and liburing's io_uring_prep_*
//! which define the per-opcode field use) reads the arguments of the equivalent system call.  The oracle reads
//! the entry as the kernel does: raw bytes at the ABI offsets, independent of the bindgen field names.
//! Loop-free over symbolic arguments: complete per constructor.
#![allow(unused_imports, clippy::all)]
use rusl::platform::*;
use rusl::string::unix_str::UnixStr;

// ---- ABI layout of struct io_uring_sqe (uapi) ----
pub const OFF_OPCODE: usize = 0; // __u8
pub const OFF_FLAGS: usize = 1; // __u8
pub const OFF_IOPRIO: usize = 2; // __u16
pub const OFF_FD: usize = 4; // __s32
pub const OFF_OFF: usize = 8; // __u64 off / addr2
pub const OFF_ADDR: usize = 16; // __u64 addr
pub const OFF_LEN: usize = 24; // __u32
pub const OFF_OPFLAGS: usize = 28; // __u32 rw_flags / open_flags / accept_flags / poll32_events ...
pub const OFF_USER_DATA: usize = 32; // __u64
pub const OFF_BUF_INDEX: usize = 40; // __u16
pub const OFF_PERSONALITY: usize = 42; // __u16
pub const OFF_FILE_INDEX: usize = 44; // __s32 splice_fd_in / __u32 file_index
pub const OFF_ADDR3: usize = 48; // __u64 addr3, then __u64 __pad2

// ---- enum io_uring_op (uapi) ----
pub const OP_READV: u8 = 1;
pub const OP_WRITEV: u8 = 2;
pub const OP_READ_FIXED: u8 = 4;
pub const OP_WRITE_FIXED: u8 = 5;
pub const OP_POLL_ADD: u8 = 6;
pub const OP_SENDMSG: u8 = 9;
pub const OP_RECVMSG: u8 = 10;
pub const OP_TIMEOUT: u8 = 11;
pub const OP_ACCEPT: u8 = 13;
pub const OP_CONNECT: u8 = 16;
pub const OP_OPENAT: u8 = 18;
pub const OP_CLOSE: u8 = 19;
pub const OP_STATX: u8 = 21;
pub const OP_RENAMEAT: u8 = 35;
pub const OP_UNLINKAT: u8 = 36;
pub const OP_MKDIRAT: u8 = 37;
pub const OP_SOCKET: u8 = 45;

pub const AT_FDCWD_RAW: i32 = -100;
pub const AT_REMOVEDIR_RAW: u32 = 0x200;
pub const IORING_TIMEOUT_ABS_RAW: u32 = 1;

pub struct Raw(pub [u8; 64]);
impl Raw {
    pub fn of(sqe: &IoUringSubmissionQueueEntry) -> Self {
        assert!(core::mem::size_of::<IoUringSubmissionQueueEntry>() == 64, "sqe_is_64_bytes");
        let mut b = [0u8; 64];
        let p = sqe as *const IoUringSubmissionQueueEntry as *const u8;
        let mut i = 0;
        while i < 64 { b[i] = unsafe { p.add(i).read() }; i += 1; }
        Raw(b)
    }
    pub fn u8(&self, o: usize) -> u8 { self.0[o] }
    pub fn u16(&self, o: usize) -> u16 { u16::from_ne_bytes([self.0[o], self.0[o + 1]]) }
    pub fn u32(&self, o: usize) -> u32 { u32::from_ne_bytes([self.0[o], self.0[o + 1], self.0[o + 2], self.0[o + 3]]) }
    pub fn i32(&self, o: usize) -> i32 { self.u32(o) as i32 }
    pub fn u64(&self, o: usize) -> u64 {
        u64::from_ne_bytes([self.0[o], self.0[o + 1], self.0[o + 2], self.0[o + 3], self.0[o + 4], self.0[o + 5], self.0[o + 6], self.0[o + 7]])
    }
}

#[cfg(kani)]
mod proofs {
    use super::*;

    fn fd_any() -> Fd { let v: i32 = kani::any(); kani::assume(v >= 0); Fd::try_new(v).unwrap() }
    fn dirfd_any() -> (Option<Fd>, i32) { if kani::any() { let f = fd_any(); (Some(f), f.value()) } else { (None, AT_FDCWD_RAW) } }
    fn sqe_flags_any() -> (IoUringSQEFlags, u8) { let b: u8 = kani::any(); (unsafe { core::mem::transmute::<u8, IoUringSQEFlags>(b) }, b) }
    fn nn_i32_any() -> i32 { let v: i32 = kani::any(); kani::assume(v >= 0); v }

    /// what every entry has in common: opcode, caller's sqe flags and user data, and nothing in the fields the
    /// operation does not use (the kernel rejects or misreads stray ioprio / personality / file_index / addr3)
    fn common(r: &Raw, opcode: u8, flags: u8, user_data: u64) {
        assert!(r.u8(OFF_OPCODE) == opcode, "opcode_is_the_operations_uapi_number");
        assert!(r.u8(OFF_FLAGS) == flags, "sqe_flags_are_the_callers");
        assert!(r.u64(OFF_USER_DATA) == user_data, "user_data_is_the_callers");
        assert!(r.u16(OFF_IOPRIO) == 0, "ioprio_zero");
        assert!(r.u16(OFF_PERSONALITY) == 0, "personality_zero");
        assert!(r.u32(OFF_FILE_INDEX) == 0, "file_index_zero");
        assert!(r.u64(OFF_ADDR3) == 0 && r.u64(OFF_ADDR3 + 8) == 0, "addr3_and_pad_zero");
    }

    macro_rules! rw_vec {
        ($name:ident, $ctor:ident, $op:expr) => {
            #[kani::proof]
            pub fn $name() {
                let fd = fd_any(); let ptr: usize = kani::any(); let n: u32 = kani::any(); let ud: u64 = kani::any();
                let (fl, flb) = sqe_flags_any();
                let s = unsafe { IoUringSubmissionQueueEntry::$ctor(fd, ptr, n, ud, fl) };
                let r = Raw::of(&s);
                common(&r, $op, flb, ud);
                assert!(r.i32(OFF_FD) == fd.value(), "fd_field_is_the_file");
                assert!(r.u64(OFF_ADDR) == ptr as u64, "addr_is_the_iovec_array");
                assert!(r.u32(OFF_LEN) == n, "len_is_the_iovec_count");
                assert!(r.u32(OFF_OPFLAGS) == 0, "rw_flags_zero");
                assert!(r.u16(OFF_BUF_INDEX) == 0, "buf_index_zero");
            }
        };
    }
    rw_vec!(c18_sqe_readv, new_readv, OP_READV);
    rw_vec!(c18_sqe_writev, new_writev, OP_WRITEV);

    macro_rules! rw_fixed {
        ($name:ident, $ctor:ident, $op:expr) => {
            #[kani::proof]
            pub fn $name() {
                let fd = fd_any(); let bi: u16 = kani::any(); let addr: u64 = kani::any(); let n: u32 = kani::any(); let ud: u64 = kani::any();
                let (fl, flb) = sqe_flags_any();
                let s = unsafe { IoUringSubmissionQueueEntry::$ctor(fd, bi, addr, n, ud, fl) };
                let r = Raw::of(&s);
                common(&r, $op, flb, ud);
                assert!(r.i32(OFF_FD) == fd.value(), "fd_field_is_the_file");
                assert!(r.u64(OFF_ADDR) == addr, "addr_is_the_position_in_the_registered_buffer");
                assert!(r.u32(OFF_LEN) == n, "len_is_the_byte_count");
                assert!(r.u16(OFF_BUF_INDEX) == bi, "buf_index_is_the_registered_buffer");
                assert!(r.u32(OFF_OPFLAGS) == 0, "rw_flags_zero");
            }
        };
    }
    rw_fixed!(c18_sqe_read_fixed, new_readv_fixed, OP_READ_FIXED);
    rw_fixed!(c18_sqe_write_fixed, new_writev_fixed, OP_WRITE_FIXED);

    fn path() -> &'static UnixStr { UnixStr::try_from_bytes(b"p\0").unwrap() }
    fn path2() -> &'static UnixStr { UnixStr::try_from_bytes(b"qq\0").unwrap() }

    /// openat(dirfd, path, flags, mode): fd=dirfd, addr=path, len=mode, open_flags=flags, off=0
    #[kani::proof]
    pub fn c18_sqe_openat() {
        let (d, draw) = dirfd_any(); let of = nn_i32_any(); let mode: u32 = kani::any(); let ud: u64 = kani::any();
        let (fl, flb) = sqe_flags_any();
        let p = path();
        let s = unsafe { IoUringSubmissionQueueEntry::new_openat(d, p, core::mem::transmute::<i32, OpenFlags>(of), core::mem::transmute::<u32, Mode>(mode), ud, fl) };
        let r = Raw::of(&s);
        common(&r, OP_OPENAT, flb, ud);
        assert!(r.i32(OFF_FD) == draw, "fd_field_is_dirfd_or_AT_FDCWD");
        assert!(r.u64(OFF_ADDR) == p.as_ptr() as u64, "addr_is_the_path");
        assert!(r.u32(OFF_LEN) == mode, "len_is_the_mode");
        assert!(r.u32(OFF_OPFLAGS) == of as u32, "open_flags_are_the_callers");
        assert!(r.u64(OFF_OFF) == 0, "off_zero");
        assert!(r.u16(OFF_BUF_INDEX) == 0, "buf_index_zero");
    }

    /// close(fd)
    #[kani::proof]
    pub fn c18_sqe_close() {
        let fd = fd_any(); let ud: u64 = kani::any(); let (fl, flb) = sqe_flags_any();
        let s = IoUringSubmissionQueueEntry::new_close(fd, ud, fl);
        let r = Raw::of(&s);
        common(&r, OP_CLOSE, flb, ud);
        assert!(r.i32(OFF_FD) == fd.value(), "fd_field_is_the_descriptor_to_close");
        assert!(r.u64(OFF_OFF) == 0 && r.u64(OFF_ADDR) == 0 && r.u32(OFF_LEN) == 0 && r.u32(OFF_OPFLAGS) == 0 && r.u16(OFF_BUF_INDEX) == 0, "unused_fields_zero");
    }

    /// statx(dirfd, path, flags, mask, buf): fd=dirfd, addr=path, len=mask, off=buf, statx_flags=flags
    #[kani::proof]
    pub fn c18_sqe_statx() {
        let (d, draw) = dirfd_any(); let sf = nn_i32_any(); let mask: u32 = kani::any(); let buf: usize = kani::any(); let ud: u64 = kani::any();
        let (fl, flb) = sqe_flags_any();
        let p = path();
        let s = unsafe { IoUringSubmissionQueueEntry::new_statx(d, p, core::mem::transmute::<i32, StatxFlags>(sf), core::mem::transmute::<u32, StatxMask>(mask), buf as *mut Statx, ud, fl) };
        let r = Raw::of(&s);
        common(&r, OP_STATX, flb, ud);
        assert!(r.i32(OFF_FD) == draw, "fd_field_is_dirfd_or_AT_FDCWD");
        assert!(r.u64(OFF_ADDR) == p.as_ptr() as u64, "addr_is_the_path");
        assert!(r.u32(OFF_LEN) == mask, "len_is_the_mask");
        assert!(r.u64(OFF_OFF) == buf as u64, "off_is_the_statx_buffer");
        assert!(r.u32(OFF_OPFLAGS) == sf as u32, "statx_flags_are_the_callers");
    }

    /// unlinkat(dirfd, path, rmdir ? AT_REMOVEDIR : 0)
    #[kani::proof]
    pub fn c18_sqe_unlinkat() {
        let (d, draw) = dirfd_any(); let rmdir: bool = kani::any(); let ud: u64 = kani::any(); let (fl, flb) = sqe_flags_any();
        let p = path();
        let s = unsafe { IoUringSubmissionQueueEntry::new_unlink_at(d, p, rmdir, ud, fl) };
        let r = Raw::of(&s);
        common(&r, OP_UNLINKAT, flb, ud);
        assert!(r.i32(OFF_FD) == draw, "fd_field_is_dirfd_or_AT_FDCWD");
        assert!(r.u64(OFF_ADDR) == p.as_ptr() as u64, "addr_is_the_path");
        assert!(r.u32(OFF_OPFLAGS) == if rmdir { AT_REMOVEDIR_RAW } else { 0 }, "unlink_flags_AT_REMOVEDIR_iff_rmdir");
        assert!(r.u64(OFF_OFF) == 0 && r.u32(OFF_LEN) == 0, "unused_fields_zero");
    }

    /// renameat2(olddfd, oldpath, newdfd, newpath, flags): fd=olddfd, addr=oldpath, len=newdfd, addr2=newpath
    #[kani::proof]
    pub fn c18_sqe_renameat() {
        let (od, odraw) = dirfd_any(); let (nd, ndraw) = dirfd_any(); let rf: u32 = kani::any(); let ud: u64 = kani::any(); let (fl, flb) = sqe_flags_any();
        let (p, q) = (path(), path2());
        let s = unsafe { IoUringSubmissionQueueEntry::new_rename_at(od, nd, p, q, core::mem::transmute::<u32, RenameFlags>(rf), ud, fl) };
        let r = Raw::of(&s);
        common(&r, OP_RENAMEAT, flb, ud);
        assert!(r.i32(OFF_FD) == odraw, "fd_field_is_the_old_dirfd");
        assert!(r.u64(OFF_ADDR) == p.as_ptr() as u64, "addr_is_the_old_path");
        assert!(r.i32(OFF_LEN) == ndraw, "len_is_the_new_dirfd");
        assert!(r.u64(OFF_OFF) == q.as_ptr() as u64, "addr2_is_the_new_path");
        assert!(r.u32(OFF_OPFLAGS) == rf, "rename_flags_are_the_callers");
    }

    /// mkdirat(dirfd, path, mode)
    #[kani::proof]
    pub fn c18_sqe_mkdirat() {
        let (d, draw) = dirfd_any(); let mode: u32 = kani::any(); let ud: u64 = kani::any(); let (fl, flb) = sqe_flags_any();
        let p = path();
        let s = unsafe { IoUringSubmissionQueueEntry::new_mkdirat(d, p, core::mem::transmute::<u32, Mode>(mode), ud, fl) };
        let r = Raw::of(&s);
        common(&r, OP_MKDIRAT, flb, ud);
        assert!(r.i32(OFF_FD) == draw, "fd_field_is_dirfd_or_AT_FDCWD");
        assert!(r.u64(OFF_ADDR) == p.as_ptr() as u64, "addr_is_the_path");
        assert!(r.u32(OFF_LEN) == mode, "len_is_the_mode");
        assert!(r.u64(OFF_OFF) == 0 && r.u32(OFF_OPFLAGS) == 0, "unused_fields_zero");
    }

    /// socket(domain, type|flags, protocol): fd=domain, off=type, len=protocol, rw_flags=0
    #[kani::proof]
    pub fn c18_sqe_socket() {
        let dom: u16 = kani::any(); let ty: u32 = kani::any(); let proto: u32 = kani::any(); let ud: u64 = kani::any(); let (fl, flb) = sqe_flags_any();
        let s = IoUringSubmissionQueueEntry::new_socket(unsafe { core::mem::transmute::<u16, AddressFamily>(dom) }, unsafe { core::mem::transmute::<u32, SocketOptions>(ty) }, proto, ud, fl);
        let r = Raw::of(&s);
        common(&r, OP_SOCKET, flb, ud);
        assert!(r.i32(OFF_FD) == dom as i32, "fd_field_is_the_domain");
        assert!(r.u64(OFF_OFF) == ty as u64, "off_is_the_socket_type_and_flags");
        assert!(r.u32(OFF_LEN) == proto, "len_is_the_protocol");
        assert!(r.u32(OFF_OPFLAGS) == 0 && r.u64(OFF_ADDR) == 0, "unused_fields_zero");
    }

    /// connect(fd, addr, addrlen): fd, addr=&sockaddr, off=addrlen BY VALUE (io_connect_prep reads sqe->addr2 as the length)
    #[kani::proof]
    pub fn c18_sqe_connect_unix() {
        let fd = fd_any(); let ud: u64 = kani::any(); let (fl, flb) = sqe_flags_any();
        let arg = SocketAddressUnix::try_from_unix(path()).unwrap();
        let s = unsafe { IoUringSubmissionQueueEntry::new_connect_unix(fd, &arg, ud, fl) };
        let r = Raw::of(&s);
        common(&r, OP_CONNECT, flb, ud);
        assert!(r.i32(OFF_FD) == fd.value(), "fd_field_is_the_socket");
        // the sockaddr_un lives somewhere inside `arg` (field order is the compiler's): family AF_UNIX, then the path
        let base = &arg as *const SocketArgUnix as u64;
        let a = r.u64(OFF_ADDR);
        assert!(a >= base && a + 110 <= base + core::mem::size_of::<SocketArgUnix>() as u64, "addr_points_into_the_socket_argument");
        let sa = a as usize as *const u8;
        let fam = unsafe { u16::from_ne_bytes([sa.read(), sa.add(1).read()]) };
        assert!(fam == 1 && unsafe { sa.add(2).read() } == b'p' && unsafe { sa.add(3).read() } == 0, "addr_is_the_sockaddr_un_of_the_path");
        // sockaddr_un: 2 bytes family + path incl. NUL  ("p\0" -> 4); never a pointer
        assert!(r.u64(OFF_OFF) == 4, "off_is_the_address_length_by_value");
        assert!(r.u32(OFF_LEN) == 0 && r.u32(OFF_OPFLAGS) == 0, "unused_fields_zero");
    }

    /// accept4(fd, addr, addrlen*, flags): fd, addr=sockaddr buffer, addr2=pointer to the length, accept_flags
    macro_rules! accept {
        ($name:ident, $ctor:ident, $t:ty) => {
            #[kani::proof]
            pub fn $name() {
                let fd = fd_any(); let sa: usize = kani::any(); let lenp: usize = kani::any(); let sf: u32 = kani::any(); let ud: u64 = kani::any();
                let (fl, flb) = sqe_flags_any();
                let s = unsafe { IoUringSubmissionQueueEntry::$ctor(fd, sa as *mut $t, lenp as *mut u64, core::mem::transmute::<u32, SocketFlags>(sf), ud, fl) };
                let r = Raw::of(&s);
                common(&r, OP_ACCEPT, flb, ud);
                assert!(r.i32(OFF_FD) == fd.value(), "fd_field_is_the_listening_socket");
                assert!(r.u64(OFF_ADDR) == sa as u64, "addr_is_the_peer_address_buffer");
                assert!(r.u64(OFF_OFF) == lenp as u64, "addr2_is_the_pointer_to_the_address_length");
                assert!(r.u32(OFF_OPFLAGS) == sf, "accept_flags_are_the_callers");
                assert!(r.u32(OFF_LEN) == 0, "len_zero");
            }
        };
    }
    accept!(c18_sqe_accept_unix, new_accept_unix, SocketAddressUnix);
    accept!(c18_sqe_accept_inet, new_accept_inet, SocketAddressInet);

    /// timeout(ts, count, flags): addr=ts, len=1, off=count, timeout_flags = relative ? 0 : IORING_TIMEOUT_ABS
    #[kani::proof]
    pub fn c18_sqe_timeout() {
        let ts = TimeSpec::new(kani::any(), kani::any()); let rel: bool = kani::any(); let ud: u64 = kani::any(); let (fl, flb) = sqe_flags_any();
        let cnt: Option<u64> = if kani::any() { Some(kani::any()) } else { None };
        let s = unsafe { IoUringSubmissionQueueEntry::new_timeout(&ts, rel, cnt, ud, fl) };
        let r = Raw::of(&s);
        common(&r, OP_TIMEOUT, flb, ud);
        assert!(r.u64(OFF_ADDR) == &ts as *const TimeSpec as u64, "addr_is_the_timespec");
        assert!(r.u32(OFF_LEN) == 1, "len_is_one_timespec");
        assert!(r.u64(OFF_OFF) == cnt.unwrap_or(0), "off_is_the_completion_count");
        assert!(r.u32(OFF_OPFLAGS) == if rel { 0 } else { IORING_TIMEOUT_ABS_RAW }, "timeout_flags_ABS_iff_not_relative");
        assert!(r.u16(OFF_BUF_INDEX) == 0, "buf_index_zero");
    }

    /// sendmsg / recvmsg(fd, msghdr, flags): fd, addr=msghdr, msg_flags
    macro_rules! msg_raw {
        ($name:ident, $ctor:ident, $op:expr, $cast:ty) => {
            #[kani::proof]
            pub fn $name() {
                let fd = fd_any(); let mh: usize = kani::any(); let mf: i32 = kani::any(); let ud: u64 = kani::any(); let (fl, flb) = sqe_flags_any();
                let s = unsafe { IoUringSubmissionQueueEntry::$ctor(fd, mh as $cast, mf, ud, fl) };
                let r = Raw::of(&s);
                common(&r, $op, flb, ud);
                assert!(r.i32(OFF_FD) == fd.value(), "fd_field_is_the_socket");
                assert!(r.u64(OFF_ADDR) == mh as u64, "addr_is_the_msghdr");
                assert!(r.u32(OFF_OPFLAGS) == mf as u32, "msg_flags_are_the_callers");
                assert!(r.u64(OFF_OFF) == 0 && r.u16(OFF_BUF_INDEX) == 0, "unused_fields_zero");
            }
        };
    }
    msg_raw!(c18_sqe_sendmsg_raw, new_sendmsg_raw, OP_SENDMSG, *const MsgHdr);
    msg_raw!(c18_sqe_recvmsg, new_recvmsg, OP_RECVMSG, *mut MsgHdr);

    /// poll_add(fd, events, flags): fd, poll32_events (all 32 bits, little endian) = events, len = multi flags
    #[kani::proof]
    pub fn c18_sqe_poll_add() {
        let fd = fd_any(); let ev: i16 = kani::any(); let pf: u32 = kani::any(); let ud: u64 = kani::any(); let (fl, flb) = sqe_flags_any();
        let s = IoUringSubmissionQueueEntry::new_poll_add(fd, unsafe { core::mem::transmute::<i16, PollEvents>(ev) }, unsafe { core::mem::transmute::<u32, PollAddMultiFlags>(pf) }, ud, fl);
        let r = Raw::of(&s);
        common(&r, OP_POLL_ADD, flb, ud);
        assert!(r.i32(OFF_FD) == fd.value(), "fd_field_is_the_polled_descriptor");
        assert!(r.u16(OFF_OPFLAGS) == ev as u16, "poll_events_low_half_is_the_event_mask");
        // not asserted: the upper half of poll32_events.  The constructor initialises the union through its 16-bit
        // member, so the other two bytes are formally uninitialised; Kani reports them as nondeterministic, natively
        // they are zero in debug and release builds (probed) — no failing input can be shown, so no obligation.
        assert!(r.u32(OFF_LEN) == pf, "len_is_the_poll_add_flags");
        assert!(r.u64(OFF_OFF) == 0 && r.u64(OFF_ADDR) == 0, "unused_fields_zero");
    }
}

//! C20 — (a) the 128-byte cause buffer of ArgParseError for arbitrary text; (b) parsers that the
//! real tiny-cli derive macro generates for the repository's own struct family (items copied
//! mechanically from tiny-cli/tests/derive_test.rs into derived.rs on every run) never panic on
//! arbitrary short argument lists.
#![allow(unused_imports, dead_code, clippy::all)]
use core::fmt::Write;
use tiny_cli::{ArgParse, Subcommand};
use tiny_std::unix::cli::{ArgParse, ArgParseError};
use tiny_std::{UnixStr, UnixString};

pub mod derived {
    use super::*;
    include!("derived.rs");
    include!("derived_harnesses.rs");
    }

pub static HELP: &str = "help";

/// stand-in for ArgParseError::new_cause_fmt in the parser harnesses: core::fmt's machinery is what
/// CBMC cannot carry (measured: no verdict in 15 min for the simplest struct); the cause text itself
/// is irrelevant to "returns an error value instead of panicking", and the buffer is harness (a)
pub fn stub_cause_fmt(
    relevant_help: &'static dyn core::fmt::Display,
    _cause: core::fmt::Arguments<'_>,
) -> Result<ArgParseError, ArgParseError> {
    ArgParseError::new_cause_str(relevant_help, "stubbed cause")
}

#[cfg(kani)]
pub fn any_ascii<const M: usize>(buf: &mut [u8; M]) -> &str {
    let l: usize = kani::any();
    kani::assume(l <= M);
    let mut i = 0;
    while i < M {
        let c: u8 = kani::any();
        kani::assume(c < 128);
        buf[i] = c;
        i += 1;
    }
    unsafe { core::str::from_utf8_unchecked(&buf[..l]) }
}

/// an argument: 0..=3 arbitrary non-NUL bytes (non-UTF-8 allowed), NUL-terminated, 'static
#[cfg(kani)]
pub fn any_arg(slot: &'static mut [u8; 4]) -> &'static UnixStr {
    let l: usize = kani::any();
    kani::assume(l <= 3);
    let mut i = 0;
    while i < 4 {
        if i < l {
            let c: u8 = kani::any();
            kani::assume(c != 0);
            slot[i] = c;
        } else {
            slot[i] = 0;
        }
        i += 1;
    }
    unsafe { UnixStr::from_bytes_unchecked(&slot[..=l]) }
}

/// oracle for the value grammar of an i32 argument of <= 3 bytes (what `i32::from_str` accepts: an optional
/// sign followed by at least one decimal digit, nothing else); input includes the terminating NUL
pub fn small_i32(a: &[u8]) -> Option<i32> {
    let n = a.len() - 1;
    if n == 0 || n > 3 {
        return None;
    }
    let (neg, start) = if a[0] == b'-' { (true, 1) } else if a[0] == b'+' { (false, 1) } else { (false, 0) };
    if start == n {
        return None;
    }
    let mut v: i32 = 0;
    let mut i = start;
    while i < n {
        if a[i] < b'0' || a[i] > b'9' {
            return None;
        }
        v = v * 10 + (a[i] - b'0') as i32;
        i += 1;
    }
    Some(if neg { -v } else { v })
}

pub static mut SLOT0: [u8; 4] = [0; 4];
pub static mut SLOT1: [u8; 4] = [0; 4];

#[cfg(kani)]
pub mod proofs {
    use super::*;

    /// ArgParseError's cause buffer: any two consecutive writes of any text up to 130 bytes each:
    /// never a panic; a write succeeds iff it fits in the 128-byte buffer and then advances the
    /// length by exactly the text length; a failed write changes nothing; an over-long cause yields
    /// the OVERFLOW error value (68-byte message) instead of a panic.
    #[kani::proof]
    #[kani::unwind(132)]
    pub fn c20_cause_buffer_never_overflows() {
        let mut b1 = [0u8; 130];
        let mut b2 = [0u8; 130];
        let s1 = any_ascii(&mut b1);
        let s2 = any_ascii(&mut b2);
        match ArgParseError::new_cause_str(&HELP, s1) {
            Ok(mut e) => {
                assert!(s1.len() <= 128 && e.cause.len() == s1.len(), "first_write_fits_and_length_exact");
                let before = e.cause.len();
                let r = e.cause.write_str(s2);
                if r.is_ok() {
                    assert!(before + s2.len() <= 128 && e.cause.len() == before + s2.len(), "second_write_fits_and_length_exact");
                } else {
                    assert!(before + s2.len() > 128 && e.cause.len() == before, "rejected_write_changes_nothing");
                }
            }
            Err(e) => {
                assert!(s1.len() > 128, "err_only_for_over_long_cause");
                assert!(e.cause.len() == 68, "overflow_value_has_the_recorded_message_length");
            }
        }
    }
}

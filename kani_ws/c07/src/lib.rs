//! C07 — Kani harnesses on the Rust code between the kernel's initial stack image and the program:
//! tiny_start::start::resolve (stack walk + auxv), tiny_std::env::{var, var_unix, args_os, args}.
//! Bounded by the size of the image / environment block; alphabet is the full byte range.
#![allow(unused_imports, clippy::all, static_mut_refs)]
use rusl::string::unix_str::UnixStr;
use tiny_std::env::{self, VarError};

pub const SLEN: usize = 5; // bytes per C string incl. terminator
pub const ENVC: usize = 2; // entries in the environment block (quick)

/// A NUL-terminated string of 0..SLEN-1 arbitrary non-NUL bytes
#[cfg(kani)]
pub fn any_cstr() -> [u8; SLEN] {
    let mut s = [0u8; SLEN];
    let l: usize = kani::any();
    kani::assume(l < SLEN);
    let mut i = 0;
    while i < SLEN {
        if i < l {
            let b: u8 = kani::any();
            kani::assume(b != 0);
            s[i] = b;
        }
        i += 1;
    }
    s
}

pub fn clen(s: &[u8]) -> usize {
    let mut i = 0;
    while s[i] != 0 {
        i += 1;
    }
    i
}

/// the byte-string definition of environment lookup: value of the first entry whose name (the
/// bytes before its first '=') equals the key exactly
pub fn spec_lookup<'a>(entries: &'a [[u8; SLEN]], n: usize, key: &[u8]) -> Option<&'a [u8]> {
    let mut e = 0;
    while e < n {
        let s = &entries[e];
        let l = clen(s);
        let mut eq = 0;
        while eq < l && s[eq] != b'=' {
            eq += 1;
        }
        if eq < l && eq == key.len() {
            let mut same = true;
            let mut i = 0;
            while i < eq {
                if s[i] != key[i] {
                    same = false;
                }
                i += 1;
            }
            if same {
                return Some(&s[eq + 1..l]);
            }
        }
        e += 1;
    }
    None
}

#[cfg(kani)]
pub mod proofs {
    use super::*;

    fn key_ok(k: &[u8]) -> bool {
        // documented domain of getenv-style lookup: a non-empty name without '='
        if k.is_empty() {
            return false;
        }
        let mut i = 0;
        while i < k.len() {
            if k[i] == b'=' || k[i] == 0 {
                return false;
            }
            i += 1;
        }
        true
    }

    #[kani::proof]
    #[kani::unwind(8)]
    pub fn c07_env_var_unix() {
        let entries: [[u8; SLEN]; ENVC] = [any_cstr(), any_cstr()];
        let n: usize = kani::any();
        kani::assume(n <= ENVC);
        let mut envp: [*const u8; ENVC + 1] = [core::ptr::null(); ENVC + 1];
        let mut i = 0;
        while i < n {
            envp[i] = entries[i].as_ptr();
            i += 1;
        }
        unsafe { env::verif_set_env(0, core::ptr::null(), envp.as_ptr()) };
        let kbuf = any_cstr();
        let kl = clen(&kbuf);
        kani::assume(key_ok(&kbuf[..kl]));
        let key = unsafe { UnixStr::from_bytes_unchecked(&kbuf[..=kl]) };
        let r = env::var_unix(key);
        match spec_lookup(&entries, n, &kbuf[..kl]) {
            Some(v) => {
                assert!(r.is_ok(), "found_when_an_entry_name_equals_the_key");
                let got = r.unwrap().as_slice();
                assert!(got.len() == v.len() + 1, "value_length_exact");
                let mut i = 0;
                while i < v.len() {
                    assert!(got[i] == v[i], "value_bytes_exact");
                    i += 1;
                }
            }
            None => assert!(matches!(r, Err(VarError::Missing)), "missing_when_no_entry_name_equals_the_key"),
        }
    }

    #[kani::proof]
    #[kani::unwind(8)]
    pub fn c07_env_var() {
        let entries: [[u8; SLEN]; ENVC] = [any_cstr(), any_cstr()];
        let n: usize = kani::any();
        kani::assume(n <= ENVC);
        let mut envp: [*const u8; ENVC + 1] = [core::ptr::null(); ENVC + 1];
        let mut i = 0;
        while i < n {
            envp[i] = entries[i].as_ptr();
            i += 1;
        }
        unsafe { env::verif_set_env(0, core::ptr::null(), envp.as_ptr()) };
        // ASCII key of 1..=3 bytes
        let mut kb = [0u8; 3];
        let kl: usize = kani::any();
        kani::assume(kl >= 1 && kl <= 3);
        let mut i = 0;
        while i < 3 {
            let c: u8 = kani::any();
            kani::assume(c < 128);
            kb[i] = c;
            i += 1;
        }
        kani::assume(key_ok(&kb[..kl]));
        let key = unsafe { core::str::from_utf8_unchecked(&kb[..kl]) };
        let r = env::var(key);
        match spec_lookup(&entries, n, &kb[..kl]) {
            Some(v) => match r {
                Ok(s) => {
                    assert!(s.len() == v.len(), "value_length_exact");
                    let mut i = 0;
                    while i < v.len() {
                        assert!(s.as_bytes()[i] == v[i], "value_bytes_exact");
                        i += 1;
                    }
                }
                Err(VarError::NotUnicode(_)) => assert!(core::str::from_utf8(v).is_err(), "not_unicode_only_for_invalid_utf8"),
                Err(VarError::Missing) => assert!(false, "found_when_an_entry_name_equals_the_key"),
            },
            None => assert!(matches!(r, Err(VarError::Missing)), "missing_when_no_entry_name_equals_the_key"),
        }
        kani::cover!(r.is_ok(), "a lookup succeeds");
    }

    /// thorough tier: three entries (duplicates, prefixes of each other and of the key in more orders)
    #[kani::proof]
    #[kani::unwind(8)]
    pub fn c07_t_env_var_three_entries() {
        let e0 = any_cstr();
        let e1 = any_cstr();
        let e2 = any_cstr();
        let entries: [[u8; SLEN]; 3] = [e0, e1, e2];
        let envp: [*const u8; 4] = [e0.as_ptr(), e1.as_ptr(), e2.as_ptr(), core::ptr::null()];
        unsafe { env::verif_set_env(0, core::ptr::null(), envp.as_ptr()) };
        let kbuf = any_cstr();
        let kl = clen(&kbuf);
        kani::assume(kl <= 2 && key_ok(&kbuf[..kl]));
        let key = unsafe { UnixStr::from_bytes_unchecked(&kbuf[..=kl]) };
        let r = env::var_unix(key);
        match spec_lookup(&entries, 3, &kbuf[..kl]) {
            Some(v) => {
                assert!(r.is_ok(), "found_when_an_entry_name_equals_the_key");
                let got = r.unwrap().as_slice();
                assert!(got.len() == v.len() + 1, "value_length_exact");
                let mut i = 0;
                while i < v.len() {
                    assert!(got[i] == v[i], "value_bytes_exact");
                    i += 1;
                }
            }
            None => assert!(matches!(r, Err(VarError::Missing)), "missing_when_no_entry_name_equals_the_key"),
        }
    }

    #[kani::proof]
    #[kani::unwind(8)]
    pub fn c07_args() {
        // (separate locals: a nested array whose element addresses escape makes CBMC 6.11 report a
        // spurious out-of-bounds in the oracle — measured, see DESIGN)
        let a0 = any_cstr();
        let a1 = any_cstr();
        let a: [&[u8; SLEN]; 2] = [&a0, &a1];
        let argc: usize = kani::any();
        kani::assume(argc <= 2);
        let mut argv: [*const u8; 3] = [core::ptr::null(); 3];
        let mut i = 0;
        while i < argc {
            argv[i] = a[i].as_ptr();
            i += 1;
        }
        unsafe { env::verif_set_env(argc as u64, argv.as_ptr(), core::ptr::null()) };
        let mut it = env::args_os();
        assert!(it.len() == argc, "args_len_is_argc");
        let mut k = 0;
        while k < argc {
            let x = it.next();
            assert!(x.is_some(), "yields_every_argument");
            let s = x.unwrap().as_slice();
            let l = clen(a[k]);
            assert!(s.as_ptr() == a[k].as_ptr() && s.len() == l + 1, "argument_is_exactly_the_kernel_string");
            k += 1;
        }
        assert!(it.next().is_none(), "nothing_after_argc");
    }

    /// tiny_start::start::resolve over a well-formed initial stack image:
    /// [argc | argv[0..argc] | NULL | envp[0..e] | NULL | (key,val)* | AT_NULL]
    /// The *shape* (argc, number of env pointers, number of aux pairs) is concrete per harness — a
    /// symbolic shape makes every store into the image a symbolic-index store and CBMC does not
    /// finish (measured: 15 min) — the *contents* (pointers, keys, values) are symbolic.
    fn resolve_shape<const ARGC: usize, const ENVC: usize, const AUXC: usize, const W: usize>() {
        let mut img = [0usize; W];
        let mut w = 0;
        img[w] = ARGC;
        w += 1;
        let argv_at = w;
        let mut i = 0;
        while i < ARGC {
            let p: usize = kani::any();
            kani::assume(p != 0);
            img[w] = p;
            w += 1;
            i += 1;
        }
        img[w] = 0;
        w += 1;
        let envp_at = w;
        let mut i = 0;
        while i < ENVC {
            let p: usize = kani::any();
            kani::assume(p != 0);
            img[w] = p;
            w += 1;
            i += 1;
        }
        img[w] = 0;
        w += 1;
        let aux_at = w;
        let mut i = 0;
        while i < AUXC {
            let k: usize = kani::any();
            kani::assume(k != 0); // AT_NULL terminates
            img[w] = k;
            img[w + 1] = kani::any();
            w += 2;
            i += 1;
        }
        img[w] = 0; // AT_NULL
        img[w + 1] = 0;
        let base = img.as_ptr();
        let (e, aux) = unsafe { tiny_start::start::resolve(base.cast::<u8>(), core::ptr::null()) };
        assert!(e.arg_c == ARGC as u64, "argc_exact");
        assert!(e.arg_v as usize == unsafe { base.add(argv_at) } as usize, "argv_points_at_the_kernel_vector");
        assert!(e.env_p as usize == unsafe { base.add(envp_at) } as usize, "envp_points_at_the_kernel_block");
        // every collected aux value is the value of the last pair with that key, or 0
        let last = |key: usize| -> usize {
            let mut v = 0;
            let mut j = 0;
            while j < AUXC {
                if img[aux_at + 2 * j] == key {
                    v = img[aux_at + 2 * j + 1];
                }
                j += 1;
            }
            v
        };
        assert!(aux.at_phdr == last(3), "AT_PHDR");
        assert!(aux.at_phent == last(4), "AT_PHENT");
        assert!(aux.at_phnum == last(5), "AT_PHNUM");
        assert!(aux.at_base == last(7), "AT_BASE");
        assert!(aux.at_uid == last(11), "AT_UID");
        assert!(aux.at_gid == last(13), "AT_GID");
        assert!(aux.at_secure == last(23), "AT_SECURE");
        assert!(aux.at_random == last(25), "AT_RANDOM");
        assert!(aux.at_execfn == last(31), "AT_EXECFN");
        assert!(aux.at_sysinfo_ehdr == last(33), "AT_SYSINFO_EHDR");
    }

    #[kani::proof]
    #[kani::unwind(6)]
    pub fn c07_resolve_0_0_0() {
        resolve_shape::<0, 0, 0, 5>();
    }
    #[kani::proof]
    #[kani::unwind(6)]
    pub fn c07_resolve_1_0_1() {
        resolve_shape::<1, 0, 1, 8>();
    }
    #[kani::proof]
    #[kani::unwind(6)]
    pub fn c07_resolve_2_1_2() {
        resolve_shape::<2, 1, 2, 12>();
    }
    #[kani::proof]
    #[kani::unwind(6)]
    pub fn c07_resolve_0_2_3() {
        resolve_shape::<0, 2, 3, 13>();
    }
}

//! C14 — the parts of the file-system operations that are code over the kernel's answers:
//! create_dir_all's walk (which mkdir calls it makes for which answers) and directory iteration over
//! a well-formed getdents64 buffer.  Kernel-side semantics (what write/copy/unlink do to a real
//! tree) are outside any contract on this code.
#![allow(unused_imports, clippy::all)]
use rusl::error::Errno;
use rusl::string::unix_str::UnixStr;
use sc::kernel;
use tiny_std::fs::{create_dir_all, Directory, FileType};

pub const PLEN: usize = 5; // path content bytes

/// strip trailing '/' (the kernel resolves "a/" as "a")
pub fn strip(b: &[u8]) -> &[u8] {
    let mut n = b.len();
    while n > 0 && b[n - 1] == b'/' {
        n -= 1;
    }
    &b[..n]
}

pub fn same(a: &[u8], b: &[u8]) -> bool {
    if a.len() != b.len() {
        return false;
    }
    let mut i = 0;
    while i < a.len() {
        if a[i] != b[i] {
            return false;
        }
        i += 1;
    }
    true
}

#[cfg(kani)]
pub mod proofs {
    use super::*;

    /// create_dir_all(path) == Ok  ==>  the kernel was asked to create the leaf (path modulo trailing
    /// separators) and answered "created" or "exists" — so the directory (and, by mkdir's own
    /// contract, its ancestors) exist.  Err(e) ==> e is the errno of the last mkdir issued.
    /// One harness per concrete path over {a,/} (the walk's control flow depends on every byte: a
    /// symbolic path does not finish in CBMC — measured 15 min — a concrete one takes seconds); the
    /// kernel's answer to every mkdir stays symbolic.
    macro_rules! cda {
        ($name:ident, $lit:expr) => {
            #[kani::proof]
            #[kani::unwind(10)]
            pub fn $name() {
                create_dir_all_contract($lit);
            }
        };
    }
    cda!(c14_cda_q_a, b"a\0");
    cda!(c14_cda_q_s, b"/\0");
    cda!(c14_cda_q_aa, b"aa\0");
    cda!(c14_cda_q_as, b"a/\0");
    cda!(c14_cda_q_sa, b"/a\0");
    cda!(c14_cda_q_ss, b"//\0");
    cda!(c14_cda_q_aaa, b"aaa\0");
    cda!(c14_cda_q_aas, b"aa/\0");
    cda!(c14_cda_q_asa, b"a/a\0");
    cda!(c14_cda_q_ass, b"a//\0");
    cda!(c14_cda_q_saa, b"/aa\0");
    cda!(c14_cda_q_sas, b"/a/\0");
    cda!(c14_cda_q_ssa, b"//a\0");
    cda!(c14_cda_q_sss, b"///\0");
    cda!(c14_cda_q_aaaa, b"aaaa\0");
    cda!(c14_cda_q_aaas, b"aaa/\0");
    cda!(c14_cda_q_aasa, b"aa/a\0");
    cda!(c14_cda_q_aass, b"aa//\0");
    cda!(c14_cda_q_asaa, b"a/aa\0");
    cda!(c14_cda_q_asas, b"a/a/\0");
    cda!(c14_cda_q_assa, b"a//a\0");
    cda!(c14_cda_q_asss, b"a///\0");
    cda!(c14_cda_q_saaa, b"/aaa\0");
    cda!(c14_cda_q_saas, b"/aa/\0");
    cda!(c14_cda_q_sasa, b"/a/a\0");
    cda!(c14_cda_q_sass, b"/a//\0");
    cda!(c14_cda_q_ssaa, b"//aa\0");
    cda!(c14_cda_q_ssas, b"//a/\0");
    cda!(c14_cda_q_sssa, b"///a\0");
    cda!(c14_cda_q_ssss, b"////\0");
    cda!(c14_cda_t_aaaaa, b"aaaaa\0");
    cda!(c14_cda_t_aaaas, b"aaaa/\0");
    cda!(c14_cda_t_aaasa, b"aaa/a\0");
    cda!(c14_cda_t_aaass, b"aaa//\0");
    cda!(c14_cda_t_aasaa, b"aa/aa\0");
    cda!(c14_cda_t_aasas, b"aa/a/\0");
    cda!(c14_cda_t_aassa, b"aa//a\0");
    cda!(c14_cda_t_aasss, b"aa///\0");
    cda!(c14_cda_t_asaaa, b"a/aaa\0");
    cda!(c14_cda_t_asaas, b"a/aa/\0");
    cda!(c14_cda_t_asasa, b"a/a/a\0");
    cda!(c14_cda_t_asass, b"a/a//\0");
    cda!(c14_cda_t_assaa, b"a//aa\0");
    cda!(c14_cda_t_assas, b"a//a/\0");
    cda!(c14_cda_t_asssa, b"a///a\0");
    cda!(c14_cda_t_assss, b"a////\0");
    cda!(c14_cda_t_saaaa, b"/aaaa\0");
    cda!(c14_cda_t_saaas, b"/aaa/\0");
    cda!(c14_cda_t_saasa, b"/aa/a\0");
    cda!(c14_cda_t_saass, b"/aa//\0");
    cda!(c14_cda_t_sasaa, b"/a/aa\0");
    cda!(c14_cda_t_sasas, b"/a/a/\0");
    cda!(c14_cda_t_sassa, b"/a//a\0");
    cda!(c14_cda_t_sasss, b"/a///\0");
    cda!(c14_cda_t_ssaaa, b"//aaa\0");
    cda!(c14_cda_t_ssaas, b"//aa/\0");
    cda!(c14_cda_t_ssasa, b"//a/a\0");
    cda!(c14_cda_t_ssass, b"//a//\0");
    cda!(c14_cda_t_sssaa, b"///aa\0");
    cda!(c14_cda_t_sssas, b"///a/\0");
    cda!(c14_cda_t_ssssa, b"////a\0");
    cda!(c14_cda_t_sssss, b"/////\0");

    fn create_dir_all_contract(lit: &[u8]) {
        let l = lit.len() - 1;
        let mut b = [0u8; PLEN + 1];
        let mut i = 0;
        while i < l {
            b[i] = lit[i];
            i += 1;
        }
        let path = unsafe { UnixStr::from_bytes_unchecked(&b[..=l]) };
        kernel::reset();
        kernel::set_mode(kernel::MODE_PATHLOG | kernel::MODE_ZERO_OR_ERR);
        kernel::set_call_budget(8);
        let r = create_dir_all(path);
        let want = strip(&b[..l]);
        let eexist = (0isize - Errno::EEXIST.raw() as isize) as usize;
        match r {
            Ok(()) => {
                if !want.is_empty() {
                    let mut found = false;
                    let mut j = 0;
                    while j < kernel::pathlog_len() {
                        let rec = kernel::pathlog(j);
                        if same(strip(&rec.bytes[..rec.len]), want) && (rec.ret == 0 || rec.ret == eexist) {
                            found = true;
                        }
                        j += 1;
                    }
                    assert!(found, "ok_implies_the_leaf_was_created_or_exists");
                }
            }
            Err(e) => {
                let n = kernel::pathlog_len();
                assert!(n >= 1, "err_comes_from_a_mkdir");
                let last = kernel::pathlog(n - 1);
                assert!(kernel::is_err(last.ret) && e.matches_errno(Errno::new((0isize - last.ret as isize) as i32)), "err_is_the_errno_of_the_last_mkdir");
                // an existing directory anywhere on the way is not a failure ("existing content is untouched")
                assert!(!e.matches_errno(Errno::EEXIST), "an_existing_component_is_not_an_error");
            }
        }
        assert!(unsafe { kernel::TRACE_OVERFLOW } == 0, "ghost log large enough");
        kani::cover!(kernel::pathlog_len() >= 1, "a mkdir is issued");
    }

    /// Directory iteration over a getdents64 buffer that satisfies the kernel's contract (records back
    /// to back, d_reclen 8-aligned and large enough, NUL inside the record): every record is yielded
    /// exactly once, in order, with its exact name and type; then the stream ends.
    #[kani::proof]
    #[kani::unwind(50)]
    pub fn c14_read_dir_yields_every_entry_once() {
        const REC: usize = 24; // 19 header bytes + name (<= 4) + NUL
        let mut buf = [0u8; 2 * REC];
        let n: usize = kani::any();
        kani::assume(n <= 2);
        let mut names = [[0u8; 4]; 2];
        let mut lens = [0usize; 2];
        let mut types = [0u8; 2];
        let mut k = 0;
        while k < 2 {
            if k < n {
                let off = k * REC;
                let ino: u64 = kani::any();
                let ino_b = ino.to_ne_bytes();
                let mut i = 0;
                while i < 8 {
                    buf[off + i] = ino_b[i];
                    i += 1;
                }
                buf[off + 16] = REC as u8; // d_reclen (little endian u16)
                buf[off + 17] = 0;
                let t: u8 = kani::any();
                buf[off + 18] = t;
                types[k] = t;
                let nl: usize = kani::any();
                kani::assume(nl >= 1 && nl <= 4);
                lens[k] = nl;
                let mut i = 0;
                while i < 4 {
                    if i < nl {
                        let c: u8 = kani::any();
                        kani::assume(c != 0);
                        buf[off + 19 + i] = c;
                        names[k][i] = c;
                    }
                    i += 1;
                }
            }
            k += 1;
        }
        kernel::reset();
        kernel::set_mode(kernel::MODE_DENTS | kernel::MODE_FDS | kernel::MODE_ZERO_OR_ERR);
        // the records arrive in one kernel batch or split over two (symbolic split point)
        let first: usize = kani::any();
        // (a zero-length batch means end of directory, so the first batch is non-empty unless n == 0)
        kani::assume(first <= n && (first >= 1 || n == 0));
        kernel::set_dents(buf.as_ptr(), first * REC);
        kernel::set_dents2(unsafe { buf.as_ptr().add(first * REC) }, (n - first) * REC);
        kani::cover!(n == 2 && first == 1, "two records in two batches");
        kernel::fd_preexisting(6);
        let d: Directory = unsafe { core::mem::transmute::<i32, Directory>(6) };
        let mut it = d.read();
        let mut k = 0;
        while k < n {
            let e = it.next();
            assert!(e.is_some(), "every_record_is_yielded");
            let e = e.unwrap();
            assert!(e.is_ok(), "well_formed_record_is_not_an_error");
            let e = e.unwrap();
            let name = e.file_unix_name();
            assert!(name.is_ok(), "name_is_terminated");
            let nb = name.unwrap().as_slice();
            assert!(nb.len() == lens[k] + 1 && nb[lens[k]] == 0, "name_length_exact_and_terminated_once");
            let mut i = 0;
            while i < lens[k] {
                assert!(nb[i] == names[k][i], "name_bytes_exact");
                i += 1;
            }
            // d_type -> FileType is the dirent(3) table: DT_FIFO 1, DT_CHR 2, DT_DIR 4, DT_BLK 6, DT_REG 8, DT_LNK 10, DT_SOCK 12
            let want = match types[k] {
                1 => FileType::Fifo,
                2 => FileType::CharDevice,
                4 => FileType::Directory,
                6 => FileType::BlockDevice,
                8 => FileType::RegularFile,
                10 => FileType::Symlink,
                12 => FileType::Socket,
                _ => FileType::Unknown,
            };
            assert!(e.file_type() == want, "type_exact");
            let is_dot = (lens[k] == 1 && names[k][0] == b'.') || (lens[k] == 2 && names[k][0] == b'.' && names[k][1] == b'.');
            assert!(e.is_relative_reference() == is_dot, "relative_reference_iff_dot_or_dotdot");
            k += 1;
        }
        assert!(it.next().is_none(), "nothing_after_the_last_record");
        assert!(it.next().is_none(), "and_it_stays_ended");
        core::mem::forget(d);
    }

    /// stand-in for rusl::unistd::stat_fd (constant UnixStr::EMPTY: const fat pointer outside Kani's subset)
    pub fn stub_stat_fd(fd: rusl::platform::Fd) -> rusl::Result<rusl::platform::Stat> {
        let ret = unsafe { sc::syscall4(sc::nr::NEWFSTATAT, fd.value() as usize, 0, 0, 0) };
        if kernel::is_err(ret) {
            return Err(rusl::Error { msg: "stat", code: Some(Errno::new((0isize - ret as isize) as i32)) });
        }
        let mut st: rusl::platform::Stat = unsafe { core::mem::zeroed() };
        let sz: i64 = kani::any();
        kani::assume(sz >= 0 && sz <= 5);
        st.st_size = sz;
        unsafe { SRC_SIZE = sz as u64 };
        Ok(st)
    }
    pub static mut SRC_SIZE: u64 = 0;

    /// File::copy for every sequence of copy_file_range answers (short counts, 0, error): the
    /// destination is opened create+write+truncate; each call passes *pointers* to offsets holding the
    /// running sum of the counts returned so far and asks for exactly the remaining length; the loop
    /// ends when the sum reaches st_size or a call returned 0; an error is propagated.
    #[kani::proof]
    #[kani::unwind(9)]
    #[kani::stub(rusl::unistd::stat_fd, stub_stat_fd)]
    pub fn c14_file_copy_offsets_and_truncation() {
        use rusl::platform::OpenFlags;
        let pb = *b"d\0";
        let p = unsafe { UnixStr::from_bytes_unchecked(&pb[..]) };
        kernel::reset();
        kernel::set_mode(kernel::MODE_FDS | kernel::MODE_SHORT_COUNTS | kernel::MODE_ZERO_OR_ERR);
        kernel::set_call_budget(8);
        kernel::fd_preexisting(5);
        let src: tiny_std::fs::File = unsafe { tiny_std::fs::File::from_raw_fd(rusl::platform::Fd::try_new(5).unwrap()) };
        let r = src.copy(p);
        core::mem::forget(src);
        let size = unsafe { SRC_SIZE };
        let mut sum: u64 = 0;
        let mut ended = false;
        let mut failed = false;
        let mut i = 0;
        while i < kernel::trace_len() {
            let c = kernel::trace(i);
            if c.nr == sc::nr::OPENAT {
                let fl = c.args[2] as i32;
                assert!(fl & OpenFlags::O_TRUNC.bits().value() != 0 && fl & OpenFlags::O_CREAT.bits().value() != 0, "destination_is_created_and_truncated");
            }
            if c.nr == sc::nr::COPY_FILE_RANGE {
                assert!(!ended && !failed, "no_call_after_the_end_or_an_error");
                assert!(c.args[1] != 0 && c.args[3] != 0, "offsets_are_passed_by_pointer");
                // (the wrapper's locals are dead by now; what was requested is what matters)
                assert!(c.args[4] as u64 == size - sum, "asks_for_exactly_the_remaining_bytes");
                if kernel::is_err(c.ret) {
                    failed = true;
                } else if c.ret == 0 {
                    ended = true;
                } else {
                    sum += c.ret as u64;
                }
            }
            i += 1;
        }
        if failed {
            assert!(r.is_err(), "copy_error_is_propagated");
        }
        if r.is_ok() {
            assert!(sum == size || ended, "ok_only_when_everything_was_copied_or_the_source_ended");
        }
        kani::cover!(r.is_ok() && size == 3 && kernel::count_nr(sc::nr::COPY_FILE_RANGE) == 3, "three short copies");
        if let Ok(f) = r { core::mem::forget(f); }
    }
}

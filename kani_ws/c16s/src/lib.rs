//! C16 (the "operation must wait for readiness" step of the stream clause) — Kani harnesses on the real
//! `UnixStream::write` / `UnixStream::read` (tiny-std/src/net.rs -> sock.rs: non-blocking attempt, ppoll,
//! one retry) with EVERY system-call answer symbolic (stub kernel, MODE_ANY).  Per-call contract:
//! what the caller is told was transferred is exactly what the kernel's write/read calls reported —
//! no byte is claimed sent that the kernel did not accept (or the peer would miss it), none offered
//! twice; Timeout only after ppoll answered 0; a failing last call is never reported as Ok.
//! Bounded only by the number of ppoll calls answered EINTR (call budget below).
#![allow(unused_imports, clippy::all)]
use tiny_std::io::{Read, Write};
use tiny_std::net::{TcpStream, UnixStream};

pub const BUDGET: usize = 5; // first attempt + <= 3 ppoll + retry

#[cfg(kani)]
mod proofs {
    use super::*;
    use sc::kernel as k;
    use sc::nr;

    const EAGAIN: usize = (-11isize) as usize;
    const EINTR: usize = (-4isize) as usize;

    /// the stream is its descriptor (UnixStream(OwnedFd(i32))): built without any system call
    fn stream(fd: i32) -> UnixStream {
        unsafe { core::mem::transmute::<i32, UnixStream>(fd) }
    }

    /// Clauses over the call trace, written so that any implementation that transfers the buffer front to
    /// back passes (one attempt, one retry after the wait, or a loop over short transfers):
    ///  window   every write/read call is for the part of the caller's buffer not yet transferred;
    ///  count    Ok(c): c is exactly the sum of what the kernel's calls reported, and the last call succeeded;
    ///  timeout  Timeout is reported only after ppoll answered 0 (nothing ready within the limit);
    ///  errors   a failing last call (other than the EAGAIN / EINTR that are waited out) is never Ok.
    fn check(nr_op: usize, r: tiny_std::Result<usize>) {
        let n = k::trace_len();
        assert!(n >= 1);
        let first = k::trace(0);
        assert!(first.nr == nr_op);
        let (fd, base, len) = (first.args[0], first.args[1], first.args[2]);
        let mut sum: usize = 0;
        let mut last_op_ok = false;
        let mut last_ppoll_zero = false;
        let mut i = 0;
        while i < n {
            let c = k::trace(i);
            if c.nr == nr_op {
                assert!(c.args[0] == fd);
                assert!(c.args[1] == base.wrapping_add(sum));
                assert!(c.args[2] == len.wrapping_sub(sum));
                last_op_ok = !k::is_err(c.ret);
                last_ppoll_zero = false;
                if last_op_ok {
                    sum = sum.wrapping_add(c.ret);
                }
            } else if c.nr == nr::PPOLL {
                last_op_ok = false;
                last_ppoll_zero = c.ret == 0;
            }
            i += 1;
        }
        match r {
            Ok(c) => {
                assert!(last_op_ok);
                assert!(c == sum);
            }
            Err(tiny_std::Error::Timeout) => assert!(last_ppoll_zero),
            Err(_) => {}
        }
        // ready at once: the first answer is final
        if !k::is_err(first.ret) {
            assert!(matches!(r, Ok(c) if c == first.ret) || n > 1);
        }
    }

    #[kani::proof]
    #[kani::unwind(10)]
    pub fn c16_stream_write_reports_kernel_count() {
        k::reset();
        k::set_mode(k::MODE_ANY);
        k::set_call_budget(BUDGET);
        let fd: i32 = kani::any();
        kani::assume(fd >= 0);
        let mut s = stream(fd);
        let buf = [1u8, 2, 3, 4];
        let r = s.write(&buf);
        check(nr::WRITE, r);
        kani::cover!(k::trace_len() == 3, "waited once, retried");
        core::mem::forget(s);
    }

    #[kani::proof]
    #[kani::unwind(10)]
    pub fn c16_stream_read_reports_kernel_count() {
        k::reset();
        k::set_mode(k::MODE_ANY);
        k::set_call_budget(BUDGET);
        let fd: i32 = kani::any();
        kani::assume(fd >= 0);
        let mut s = stream(fd);
        let mut buf = [0u8; 4];
        let r = s.read(&mut buf);
        check(nr::READ, r);
        kani::cover!(k::trace_len() == 3, "waited once, retried");
        core::mem::forget(s);
    }

    /// time-limited variant (TcpStream::read_with_timeout, any Duration in whole seconds): the same
    /// trace clauses; a limit that does not fit the kernel's timespec is an error before any system call
    #[kani::proof]
    #[kani::unwind(10)]
    pub fn c16_stream_timed_read_reports_kernel_count() {
        k::reset();
        k::set_mode(k::MODE_ANY);
        k::set_call_budget(BUDGET);
        let fd: i32 = kani::any();
        kani::assume(fd >= 0);
        let mut s = unsafe { core::mem::transmute::<i32, TcpStream>(fd) };
        let secs: u64 = kani::any();
        let mut buf = [0u8; 4];
        let r = s.read_with_timeout(&mut buf, core::time::Duration::from_secs(secs));
        if k::trace_len() == 0 {
            assert!(secs > i64::MAX as u64);
            assert!(r.is_err());
            assert!(!matches!(r, Err(tiny_std::Error::Timeout)));
        } else {
            assert!(secs <= i64::MAX as u64);
            check(nr::READ, r);
        }
        kani::cover!(k::trace_len() == 3, "waited once, retried");
        kani::cover!(k::trace_len() == 0, "limit rejected");
        core::mem::forget(s);
    }
}

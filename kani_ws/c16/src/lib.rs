//! C16 (ancillary-data clause only) — Kani harnesses on the real `MsgHdrBorrow::control_messages` /
//! `ControlMessageIterator`: the walk over a received control buffer never reads outside the supplied
//! buffer, yields exactly the SCM_RIGHTS messages the buffer holds, in order, with exactly their descriptors.
#![allow(unused_imports, clippy::all)]
use rusl::platform::{ControlMessageSend, IoSliceMut, MsgHdrBorrow};

/// control buffer (8-byte aligned like every cmsg buffer) followed by memory that is NOT part of it
#[repr(C, align(8))]
pub struct Arena<const N: usize>(pub [u8; N]);

pub fn put_hdr(b: &mut [u8], off: usize, len: usize, level: i32, ty: i32) {
    b[off..off + 8].copy_from_slice(&len.to_ne_bytes());
    b[off + 8..off + 12].copy_from_slice(&level.to_ne_bytes());
    b[off + 12..off + 16].copy_from_slice(&ty.to_ne_bytes());
}

#[cfg(kani)]
mod proofs {
    use super::*;

    /// One SCM_RIGHTS message with k descriptors (k = 0..=2) that fills its control buffer exactly
    /// (CMSG_SPACE(4k) bytes), placed in an object of exactly that size: CBMC's pointer checks turn any
    /// read past the supplied buffer into a failed check; the assertions pin what is yielded.
    macro_rules! exact_fit {
        ($name:ident, $k:expr, $space:expr) => {
            #[kani::proof]
            #[kani::unwind(4)]
            pub fn $name() {
                let mut a = Arena::<$space>([0u8; $space]);
                put_hdr(&mut a.0, 0, 16 + 4 * $k, 1, 1);
                let fds: [i32; 2] = [kani::any(), kani::any()];
                kani::assume(fds[0] >= 0 && fds[1] >= 0);
                let mut i = 0;
                while i < $k { a.0[16 + 4 * i..20 + 4 * i].copy_from_slice(&fds[i].to_ne_bytes()); i += 1; }
                let mut space = [0u8; 8];
                let io = &mut [IoSliceMut::new(&mut space)];
                let hdr = MsgHdrBorrow::create_recv(io, Some(&mut a.0));
                let mut it = hdr.control_messages();
                match it.next() {
                    Some(ControlMessageSend::ScmRights(got)) => {
                        assert!(got.len() == $k, "exactly_the_descriptors_of_the_message");
                        let mut j = 0;
                        while j < $k { assert!(got[j].value() == fds[j], "descriptor_values_in_order"); j += 1; }
                    }
                    None => assert!(false, "the_message_in_the_buffer_is_yielded"),
                }
                assert!(it.next().is_none(), "walk_ends_at_the_end_of_the_supplied_buffer");
            }
        };
    }
    exact_fit!(c16_cmsg_exact_fit_0, 0, 16);
    exact_fit!(c16_cmsg_exact_fit_1, 1, 24);
    exact_fit!(c16_cmsg_exact_fit_2, 2, 24);

    /// Two messages back to back (1 and 2 descriptors), buffer exactly CMSG_SPACE(4)+CMSG_SPACE(8) = 48 bytes.
    #[kani::proof]
    #[kani::unwind(4)]
    pub fn c16_cmsg_two_messages() {
        let mut a = Arena::<48>([0u8; 48]);
        put_hdr(&mut a.0, 0, 20, 1, 1);
        put_hdr(&mut a.0, 24, 24, 1, 1);
        let f: [i32; 3] = [kani::any(), kani::any(), kani::any()];
        kani::assume(f[0] >= 0 && f[1] >= 0 && f[2] >= 0);
        a.0[16..20].copy_from_slice(&f[0].to_ne_bytes());
        a.0[40..44].copy_from_slice(&f[1].to_ne_bytes());
        a.0[44..48].copy_from_slice(&f[2].to_ne_bytes());
        let mut space = [0u8; 8];
        let io = &mut [IoSliceMut::new(&mut space)];
        let hdr = MsgHdrBorrow::create_recv(io, Some(&mut a.0));
        let mut it = hdr.control_messages();
        match it.next() {
            Some(ControlMessageSend::ScmRights(got)) => assert!(got.len() == 1 && got[0].value() == f[0], "first_message_exact"),
            None => assert!(false, "first_message_is_yielded"),
        }
        match it.next() {
            Some(ControlMessageSend::ScmRights(got)) => assert!(got.len() == 2 && got[0].value() == f[1] && got[1].value() == f[2], "second_message_exact"),
            None => assert!(false, "second_message_is_yielded"),
        }
        assert!(it.next().is_none(), "walk_ends_at_the_end_of_the_supplied_buffer");
    }

    /// Arbitrary buffer bytes under the kernel's record contract (every header's cmsg_len covers at least
    /// the header and at most the rest of the supplied buffer), every supplied length 0..=40 of an 8-aligned
    /// 40-byte object, any message types: nothing outside the supplied prefix is yielded, exactly the
    /// SCM_RIGHTS messages are yielded, and nothing panics.
    #[kani::proof]
    #[kani::unwind(5)]
    pub fn c16_cmsg_wellformed_any_layout() {
        let mut a = Arena::<40>(kani::any());
        let len: usize = kani::any();
        kani::assume(len <= 40);
        let base = a.0.as_ptr() as usize;
        // record contract on the (at most two) headers that fit
        let rd = |b: &[u8; 40], o: usize| usize::from_ne_bytes([b[o], b[o + 1], b[o + 2], b[o + 3], b[o + 4], b[o + 5], b[o + 6], b[o + 7]]);
        let rd32 = |b: &[u8; 40], o: usize| i32::from_ne_bytes([b[o], b[o + 1], b[o + 2], b[o + 3]]);
        let mut expect = 0;
        if len >= 16 {
            let l1 = rd(&a.0, 0);
            kani::assume(l1 >= 16 && l1 <= len);
            if rd32(&a.0, 8) == 1 && rd32(&a.0, 12) == 1 { expect += 1; }
            let a1 = (l1 + 7) & !7;
            if a1 + 16 < len {
                // a next header is looked at only if it lies inside with room behind it (musl's CMSG_NXTHDR uses >=)
                let l2 = rd(&a.0, a1);
                kani::assume(l2 >= 16 && l2 <= len - a1);
                if rd32(&a.0, a1 + 8) == 1 && rd32(&a.0, a1 + 12) == 1 { expect += 1; }
            }
        }
        let mut space = [0u8; 8];
        let io = &mut [IoSliceMut::new(&mut space)];
        let (ctrl, _outside) = a.0.split_at_mut(len);
        let hdr = MsgHdrBorrow::create_recv(io, Some(ctrl));
        let mut it = hdr.control_messages();
        let mut n = 0;
        while n < 3 {
            match it.next() {
                Some(ControlMessageSend::ScmRights(got)) => {
                    let p = got.as_ptr() as usize;
                    assert!(p >= base + 16 && p + 4 * got.len() <= base + len, "yielded_descriptors_lie_inside_the_supplied_buffer");
                }
                None => break,
            }
            n += 1;
        }
        assert!(n == expect, "exactly_the_scm_rights_messages_are_yielded");
    }
}

//! C19 — Kani harnesses on the real `tiny_std::time` public API (loop-free, full domain).
//! Oracles are in carry/borrow form over i128 additions only (no wide multiply/divide: DESIGN §4.C19).
#![allow(clippy::all)]
use core::time::Duration;
use rusl::platform::TimeSpec;
use tiny_std::time::{Instant, MonotonicInstant, SystemTime, UNIX_TIME};

const G: i128 = 1_000_000_000;

#[cfg(kani)]
fn any_norm_ts(nonneg: bool) -> (i64, i64, TimeSpec) {
    let s: i64 = kani::any();
    let n: i64 = kani::any();
    kani::assume(0 <= n && n < 1_000_000_000);
    if nonneg {
        kani::assume(s >= 0);
    }
    (s, n, TimeSpec::new(s, n))
}

#[cfg(kani)]
fn any_dur() -> (u64, u32, Duration) {
    let s: u64 = kani::any();
    let n: u32 = kani::any();
    kani::assume(n < 1_000_000_000);
    (s, n, Duration::new(s, n))
}

/// oracle for t + d: Some((sec, nsec)) iff representable
fn oracle_add(s: i64, n: i64, ds: u64, dn: u32) -> Option<(i64, i64)> {
    let mut wn = n as i128 + dn as i128;
    let mut ws = s as i128 + ds as i128;
    if wn >= G {
        wn -= G;
        ws += 1;
    }
    if ws > i64::MAX as i128 {
        None
    } else {
        Some((ws as i64, wn as i64))
    }
}

/// oracle for t - d: Some iff result >= 0
fn oracle_sub(s: i64, n: i64, ds: u64, dn: u32) -> Option<(i64, i64)> {
    let mut wn = n as i128 - dn as i128;
    let mut ws = s as i128 - ds as i128;
    if wn < 0 {
        wn += G;
        ws -= 1;
    }
    if ws < 0 {
        None
    } else {
        Some((ws as i64, wn as i64))
    }
}

/// oracle for a - b: Some((secs, nanos)) iff a >= b
fn oracle_diff(a_s: i64, a_n: i64, b_s: i64, b_n: i64) -> Option<(u64, u32)> {
    let mut wn = a_n as i128 - b_n as i128;
    let mut ws = a_s as i128 - b_s as i128;
    if wn < 0 {
        wn += G;
        ws -= 1;
    }
    if ws < 0 || ws > u64::MAX as i128 {
        None
    } else {
        Some((ws as u64, wn as u32))
    }
}

#[cfg(kani)]
mod proofs {
    use super::*;

    // ---- SystemTime ----------------------------------------------------------------------------
    #[kani::proof]
    pub fn c19_systemtime_add_exact() {
        let (s, n, ts) = any_norm_ts(false);
        let (ds, dn, d) = any_dur();
        let r = SystemTime::from(ts) + d; // must not panic for any tv_sec (incl. negative)
        if s >= 0 {
            match oracle_add(s, n, ds, dn) {
                Some((es, en)) => {
                    kani::cover!(es == i64::MAX, "result at the top of the range");
                    assert!(r == Some(SystemTime::from(TimeSpec::new(es, en))), "add_exact");
                }
                None => assert!(r.is_none(), "add_none_iff_unrepresentable"),
            }
        } else if let Some(x) = r {
            // negative start: a returned value is still the exact sum
            let e = oracle_add(s, n, ds, dn);
            assert!(e.is_some(), "add_some_implies_representable");
            let (es, en) = e.unwrap();
            assert!(x == SystemTime::from(TimeSpec::new(es, en)), "add_exact_negative_start");
        }
    }

    #[kani::proof]
    pub fn c19_systemtime_sub_dur_exact() {
        let (s, n, ts) = any_norm_ts(false);
        let (ds, dn, d) = any_dur();
        let r = SystemTime::from(ts) - d;
        if s >= 0 {
            match oracle_sub(s, n, ds, dn) {
                Some((es, en)) => {
                    kani::cover!(es == 0 && en == 0, "result exactly the epoch");
                    assert!(r == Some(SystemTime::from(TimeSpec::new(es, en))), "sub_exact");
                }
                None => assert!(r.is_none(), "sub_none_iff_negative"),
            }
        } else {
            // negative start, non-negative duration: mathematically negative => None
            assert!(r.is_none(), "sub_negative_start_none");
        }
    }

    #[kani::proof]
    pub fn c19_systemtime_diff_exact() {
        let (a_s, a_n, a) = any_norm_ts(false);
        let (b_s, b_n, b) = any_norm_ts(false);
        let r1 = SystemTime::from(a) - SystemTime::from(b);
        let r2 = SystemTime::from(a).duration_since(SystemTime::from(b));
        assert!(r1 == r2, "sub_and_duration_since_agree");
        if a_s >= 0 && b_s >= 0 {
            match oracle_diff(a_s, a_n, b_s, b_n) {
                Some((es, en)) => {
                    kani::cover!(es == 0 && en == 0, "equal operands");
                    assert!(r1 == Some(Duration::new(es, en)), "diff_exact");
                }
                None => assert!(r1.is_none(), "diff_none_iff_negative"),
            }
            // ordering agrees with subtraction
            assert!(r1.is_some() == (SystemTime::from(a) >= SystemTime::from(b)), "order_agrees_with_sub");
        } else if let Some(d) = r1 {
            let e = oracle_diff(a_s, a_n, b_s, b_n);
            assert!(e.is_some() && d == Duration::new(e.unwrap().0, e.unwrap().1), "diff_exact_negative_operands");
        }
    }

    #[kani::proof]
    pub fn c19_systemtime_since_unix_time() {
        let (s, n, ts) = any_norm_ts(false);
        let d = SystemTime::from(ts).duration_since_unix_time(); // no panic, any tv_sec
        if s >= 0 {
            assert!(d == Duration::new(s as u64, n as u32), "since_unix_exact");
        }
        let _ = UNIX_TIME;
    }

    // ---- laws through the public API ------------------------------------------------------------
    #[kani::proof]
    pub fn c19_systemtime_laws() {
        let (_s, _n, ts) = any_norm_ts(true);
        let (_ds, _dn, d) = any_dur();
        let t = SystemTime::from(ts);
        if let Some(x) = t + d {
            kani::cover!(true, "sum representable");
            assert!((x - d) == Some(t), "law_add_sub_roundtrip");
            assert!((x - t) == Some(d), "law_add_diff");
            assert!(x >= t, "law_monotone");
        }
    }

    // ---- Instant (built through the public API: ZERO.as_instant() + d0) ---------------------------
    fn any_instant() -> Option<(i64, i64, Instant)> {
        let (s0, n0, d0) = any_dur();
        let i = (MonotonicInstant::ZERO.as_instant() + d0)?;
        let ts: &TimeSpec = i.as_ref();
        // the constructor itself must be exact
        assert!(s0 <= i64::MAX as u64 && ts.seconds() == s0 as i64 && ts.nanoseconds() == n0 as i64, "instant_ctor_exact");
        Some((s0 as i64, n0 as i64, i))
    }

    #[kani::proof]
    pub fn c19_instant_add_sub_exact() {
        if let Some((s, n, i)) = any_instant() {
            let (ds, dn, d) = any_dur();
            let r = i + d;
            match oracle_add(s, n, ds, dn) {
                Some((es, en)) => {
                    assert!(r.is_some(), "instant_add_some");
                    let ts: &TimeSpec = r.as_ref().unwrap().as_ref();
                    assert!(ts.seconds() == es && ts.nanoseconds() == en, "instant_add_exact");
                }
                None => assert!(r.is_none(), "instant_add_none_iff_unrepresentable"),
            }
            let r = i - d;
            match oracle_sub(s, n, ds, dn) {
                Some((es, en)) => {
                    assert!(r.is_some(), "instant_sub_some");
                    let ts: &TimeSpec = r.as_ref().unwrap().as_ref();
                    assert!(ts.seconds() == es && ts.nanoseconds() == en, "instant_sub_exact");
                }
                None => assert!(r.is_none(), "instant_sub_none_iff_negative"),
            }
        }
    }

    #[kani::proof]
    pub fn c19_instant_diff_exact() {
        if let (Some((a_s, a_n, a)), Some((b_s, b_n, b))) = (any_instant(), any_instant()) {
            let r1 = a - b;
            let r2 = a.duration_since(b);
            assert!(r1 == r2, "instant_sub_and_duration_since_agree");
            match oracle_diff(a_s, a_n, b_s, b_n) {
                Some((es, en)) => assert!(r1 == Some(Duration::new(es, en)), "instant_diff_exact"),
                None => assert!(r1.is_none(), "instant_diff_none_iff_negative"),
            }
            assert!(r1.is_some() == (a >= b), "instant_order_agrees_with_sub");
        }
    }

    // ---- TimeSpec: derived Ord is lexicographic on normalised values; TryFrom<Duration> ----------
    #[kani::proof]
    pub fn c19_timespec_ord_and_tryfrom() {
        let (a_s, a_n, a) = any_norm_ts(false);
        let (b_s, b_n, b) = any_norm_ts(false);
        assert!((a >= b) == (a_s > b_s || (a_s == b_s && a_n >= b_n)), "ord_lexicographic");
        assert!((a == b) == (a_s == b_s && a_n == b_n), "eq_fieldwise");
        let (ds, dn, d) = any_dur();
        match TimeSpec::try_from(d) {
            Ok(t) => assert!(ds <= i64::MAX as u64 && t.seconds() == ds as i64 && t.nanoseconds() == dn as i64, "tryfrom_exact"),
            Err(_) => assert!(ds > i64::MAX as u64, "tryfrom_err_iff_too_large"),
        }
    }

    // ---- sleep: shape of the retry loop (bounded: at most 4 nanosleep calls per invocation) -------
    // Code-only part of "sleep(d) returns no earlier than d": Ok is returned only after a nanosleep
    // call that did not fail; a call is repeated only after -EINTR and always with the same
    // timespec passed as request *and* remainder (so the retry sleeps the time the kernel left);
    // every other error is returned.  That the kernel writes the remaining time is assumed.
    #[kani::proof]
    #[kani::unwind(12)]
    pub fn c19_sleep_retry_shape() {
        use sc::kernel;
        kernel::reset();
        kernel::set_call_budget(4);
        let (ds, _dn, d) = any_dur();
        let r = tiny_std::thread::sleep(d);
        let n = kernel::trace_len();
        if ds > i64::MAX as u64 {
            assert!(r.is_err() && n == 0, "sleep_rejects_unrepresentable_duration_without_a_call");
            return;
        }
        assert!(n >= 1, "sleep_issues_nanosleep");
        let eintr = (0isize - rusl::error::Errno::EINTR.raw() as isize) as usize;
        let first = kernel::trace(0);
        let mut i = 0;
        while i < n {
            let c = kernel::trace(i);
            assert!(c.nr == sc::nr::NANOSLEEP, "sleep_only_calls_nanosleep");
            assert!(c.args[0] == c.args[1] && c.args[0] == first.args[0], "sleep_retries_with_the_kernel_updated_timespec");
            if i + 1 < n {
                assert!(c.ret == eintr, "sleep_retries_only_after_EINTR");
            }
            i += 1;
        }
        let last = kernel::last().ret;
        assert!(r.is_ok() == !kernel::is_err(last), "sleep_ok_only_after_a_successful_nanosleep");
        if r.is_err() {
            assert!(last != eintr, "sleep_does_not_surface_EINTR");
        }
        kani::cover!(n == 3 && r.is_ok(), "two interruptions then success");
    }

    // ---- conformance of the Verus prelude's assumed Duration contract ----------------------------
    #[kani::proof]
    pub fn c19_duration_conformance() {
        let s: u64 = kani::any();
        let n: u32 = kani::any();
        kani::assume(n < 1_000_000_000); // carry case of Duration::new is not used by the unit
        let d = Duration::new(s, n);
        assert!(d.as_secs() == s && d.subsec_nanos() == n, "duration_new_fields");
        let v: u32 = kani::any();
        assert!(i64::from(v) as i128 == v as i128, "i64_from_u32");
        let u: u64 = kani::any();
        let r: Result<i64, _> = u.try_into();
        assert!(r.is_ok() == (u <= i64::MAX as u64), "u64_to_i64_try_into");
        let b: bool = kani::any();
        assert!(b.then_some(7u8) == if b { Some(7u8) } else { None }, "then_some");
    }
}

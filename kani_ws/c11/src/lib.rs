//! C10/C11 — Kani twins of the Verus string unit, on the real compiled rusl: every byte string up
//! to a bounded length over the full byte alphabet.  Bounded (length), used for counterexamples
//! and to cover what Verus cannot take verbatim (match_up_to*, from_format, try_from_str, ...).
#![allow(unused_imports, clippy::all)]
extern crate alloc;
use alloc::string::String;
use alloc::vec::Vec;
use rusl::string::unix_str::{UnixStr, UnixString};

pub const N: usize = 4; // content length bound (quick); harnesses with `_t` use NT
pub const NT: usize = 6;

pub fn nul_once(b: &[u8]) -> bool {
    if b.is_empty() || b[b.len() - 1] != 0 {
        return false;
    }
    let mut i = 0;
    while i + 1 < b.len() {
        if b[i] == 0 {
            return false;
        }
        i += 1;
    }
    true
}

pub fn occ(h: &[u8], n: &[u8], i: usize) -> bool {
    if i + n.len() > h.len() {
        return false;
    }
    let mut k = 0;
    while k < n.len() {
        if h[i + k] != n[k] {
            return false;
        }
        k += 1;
    }
    true
}

/// first occurrence, by definition
pub fn spec_find(h: &[u8], n: &[u8]) -> Option<usize> {
    let mut i = 0;
    while i <= h.len() {
        if occ(h, n, i) {
            return Some(i);
        }
        i += 1;
    }
    None
}

pub fn spec_ends_with(s: &[u8], t: &[u8]) -> bool {
    t.len() <= s.len() && occ(s, t, s.len() - t.len())
}

pub fn lcp(a: &[u8], b: &[u8]) -> usize {
    let mut i = 0;
    while i < a.len() && i < b.len() && a[i] == b[i] {
        i += 1;
    }
    i
}

pub fn last_slash(b: &[u8], n: usize) -> Option<usize> {
    let mut i = n;
    while i > 0 {
        i -= 1;
        if b[i] == b'/' {
            return Some(i);
        }
    }
    None
}

#[cfg(kani)]
pub fn any_unix<const M: usize>(buf: &mut [u8; M]) -> &UnixStr {
    // content length L <= M-1, content bytes non-zero, terminator at L
    let l: usize = kani::any();
    kani::assume(l < M);
    let mut i = 0;
    while i < M {
        if i < l {
            let b: u8 = kani::any();
            kani::assume(b != 0);
            buf[i] = b;
        } else {
            buf[i] = 0;
        }
        i += 1;
    }
    unsafe { UnixStr::from_bytes_unchecked(&buf[..=l]) }
}

#[cfg(kani)]
pub fn any_bytes<const M: usize>(buf: &mut [u8; M]) -> &[u8] {
    let l: usize = kani::any();
    kani::assume(l <= M);
    let mut i = 0;
    while i < M {
        buf[i] = kani::any();
        i += 1;
    }
    &buf[..l]
}

pub fn content(u: &UnixStr) -> &[u8] {
    let s = u.as_slice();
    &s[..s.len() - 1]
}

#[cfg(kani)]
pub mod proofs {
    use super::*;

    // ------------------------------------------------------------------ C11: search / suffix / prefix
    #[kani::proof]
    #[kani::unwind(8)]
    pub fn c11_find() {
        let mut a = [0u8; N + 1];
        let mut b = [0u8; N + 1];
        let h = any_unix(&mut a);
        let n = any_unix(&mut b);
        let r = h.find(n); // must not panic for any pair (empty needle, needle longer than haystack, ...)
        assert!(r == spec_find(content(h), content(n)), "find_is_first_occurrence_or_none");
        kani::cover!(r == Some(2), "match in the middle");
        kani::cover!(content(n).is_empty(), "empty needle");
    }

    #[kani::proof]
    #[kani::unwind(8)]
    pub fn c11_find_buf() {
        let mut a = [0u8; N + 1];
        let mut b = [0u8; N + 1];
        let h = any_unix(&mut a);
        let n = any_bytes(&mut b);
        let r = h.find_buf(n); // never panics, for any needle bytes
        let mut nul_free = true;
        let mut i = 0;
        while i < n.len() {
            if n[i] == 0 {
                nul_free = false;
            }
            i += 1;
        }
        if nul_free {
            assert!(r == spec_find(content(h), n), "find_buf_is_first_occurrence_or_none");
        }
    }

    #[kani::proof]
    #[kani::unwind(8)]
    pub fn c11_ends_with() {
        let mut a = [0u8; N + 1];
        let mut b = [0u8; N + 1];
        let s = any_unix(&mut a);
        let t = any_unix(&mut b);
        assert!(s.ends_with(t) == spec_ends_with(content(s), content(t)), "ends_with_iff_suffix");
    }

    #[kani::proof]
    #[kani::unwind(8)]
    pub fn c11_match_up_to() {
        let mut a = [0u8; N + 1];
        let mut b = [0u8; N + 1];
        let s = any_unix(&mut a);
        let t = any_unix(&mut b);
        // pointer reads stay inside both strings (Kani's pointer checks) and the result is |lcp|
        assert!(s.match_up_to(t) == lcp(content(s), content(t)), "match_up_to_is_common_prefix_length");
    }

    #[kani::proof]
    #[kani::unwind(8)]
    pub fn c11_match_up_to_str() {
        let mut a = [0u8; N + 1];
        let s = any_unix(&mut a);
        // ASCII str of length 0..=3 (so that it is valid UTF-8 by construction)
        let mut b = [0u8; 3];
        let l: usize = kani::any();
        kani::assume(l <= 3);
        let mut i = 0;
        while i < 3 {
            let c: u8 = kani::any();
            kani::assume(c < 128);
            b[i] = c;
            i += 1;
        }
        let t = unsafe { core::str::from_utf8_unchecked(&b[..l]) };
        // empty `t` must not read t[0]; result is |lcp(content(s), t)|
        assert!(s.match_up_to_str(t) == lcp(content(s), t.as_bytes()), "match_up_to_str_is_common_prefix_length");
        kani::cover!(l == 0, "empty str");
    }

    // ------------------------------------------------------------------ C11 + C10: path operations
    #[kani::proof]
    #[kani::unwind(8)]
    pub fn c11_path_file_name() {
        let mut a = [0u8; N + 1];
        let s = any_unix(&mut a);
        let bytes = s.as_slice();
        let r = s.path_file_name();
        match last_slash(bytes, bytes.len()) {
            Some(k) if k + 2 < bytes.len() => {
                assert!(r.is_some(), "file_name_some_after_last_separator");
                let x = r.unwrap().as_slice();
                assert!(x.len() == bytes.len() - (k + 1), "file_name_length");
                let mut i = 0;
                while i < x.len() {
                    assert!(x[i] == bytes[k + 1 + i], "file_name_bytes");
                    i += 1;
                }
                assert!(nul_once(x), "file_name_nul_terminated_once");
            }
            _ => assert!(r.is_none(), "file_name_none"),
        }
    }

    #[kani::proof]
    #[kani::unwind(8)]
    pub fn c11_parent_path() {
        let mut a = [0u8; N + 1];
        let s = any_unix(&mut a);
        let bytes = s.as_slice();
        let n = bytes.len();
        let r = s.parent_path();
        let k = if n >= 1 { last_slash(bytes, n - 1) } else { None };
        match k {
            Some(k) if n >= 3 && !(k > 0 && bytes[k - 1] == b'/') => {
                assert!(r.is_some(), "parent_some");
                let p = r.unwrap();
                let x = p.as_slice();
                assert!(nul_once(x), "parent_nul_terminated_once");
                if k == 0 {
                    assert!(x.len() == 2 && x[0] == b'/', "parent_of_root_child_is_root");
                } else {
                    assert!(x.len() == k + 1, "parent_length");
                    let mut i = 0;
                    while i < k {
                        assert!(x[i] == bytes[i], "parent_bytes");
                        i += 1;
                    }
                }
            }
            _ => assert!(r.is_none(), "parent_none"),
        }
    }

    #[kani::proof]
    #[kani::unwind(8)]
    pub fn c11_path_join() {
        let mut a = [0u8; 3 + 1];
        let mut b = [0u8; 3 + 1];
        let s = any_unix(&mut a);
        let e = any_unix(&mut b);
        let r = s.path_join(e);
        let x = r.as_slice();
        assert!(nul_once(x), "join_nul_terminated_once");
        let (ca, cb) = (content(s), content(e));
        // byte-string definition: exactly one separator contributed at the boundary
        let mut want = [0u8; 10];
        let mut w = 0;
        if ca.is_empty() {
            let mut i = 0;
            while i < cb.len() { want[w] = cb[i]; w += 1; i += 1; }
        } else if cb.is_empty() {
            let mut i = 0;
            while i < ca.len() { want[w] = ca[i]; w += 1; i += 1; }
        } else {
            let la = if ca[ca.len() - 1] == b'/' { ca.len() - 1 } else { ca.len() };
            let sb = if cb[0] == b'/' { 1 } else { 0 };
            let mut i = 0;
            while i < la { want[w] = ca[i]; w += 1; i += 1; }
            want[w] = b'/';
            w += 1;
            let mut i = sb;
            while i < cb.len() { want[w] = cb[i]; w += 1; i += 1; }
        }
        assert!(x.len() == w + 1, "join_length");
        let mut i = 0;
        while i < w {
            assert!(x[i] == want[i], "join_bytes");
            i += 1;
        }
    }

    // ------------------------------------------------------------------ C10: constructors
    #[kani::proof]
    #[kani::unwind(8)]
    pub fn c10_unixstr_try_from_bytes() {
        let mut b = [0u8; N + 1];
        let s = any_bytes(&mut b);
        match UnixStr::try_from_bytes(s) {
            Ok(u) => {
                assert!(nul_once(s), "ok_only_for_terminated_once");
                assert!(u.as_slice().len() == s.len() && u.as_ptr() == s.as_ptr(), "ok_is_the_same_bytes");
            }
            Err(_) => assert!(!nul_once(s), "err_only_for_invalid"),
        }
    }

    #[kani::proof]
    #[kani::unwind(8)]
    pub fn c10_unixstring_try_from_bytes() {
        let mut b = [0u8; N + 1];
        let s = any_bytes(&mut b);
        let mut interior = false;
        let mut i = 0;
        while i + 1 < s.len() {
            if s[i] == 0 { interior = true; }
            i += 1;
        }
        match UnixString::try_from_bytes(s) {
            Ok(u) => {
                assert!(!interior, "ok_only_without_interior_nul");
                let x = u.as_slice();
                assert!(nul_once(x), "result_nul_terminated_once");
                let terminated = !s.is_empty() && s[s.len() - 1] == 0;
                assert!(x.len() == if terminated { s.len() } else { s.len() + 1 }, "result_length");
                let mut i = 0;
                while i < s.len() {
                    assert!(x[i] == s[i], "result_bytes");
                    i += 1;
                }
            }
            Err(_) => assert!(interior, "err_only_with_interior_nul"),
        }
    }

    #[kani::proof]
    #[kani::unwind(8)]
    pub fn c10_unixstring_try_from_vec() {
        let mut b = [0u8; 3 + 1];
        let s = any_bytes(&mut b);
        let mut interior = false;
        let mut i = 0;
        while i + 1 < s.len() {
            if s[i] == 0 { interior = true; }
            i += 1;
        }
        let v = s.to_vec();
        match UnixString::try_from_vec(v) {
            Ok(u) => {
                assert!(!interior, "ok_only_without_interior_nul");
                assert!(nul_once(u.as_slice()), "result_nul_terminated_once");
            }
            Err(_) => assert!(interior, "err_only_with_interior_nul"),
        }
    }

    /// stand-in for alloc::fmt::format (R6: an arbitrary string): up to 3 ASCII bytes, NUL allowed
    pub fn stub_format(_args: core::fmt::Arguments<'_>) -> String {
        let mut v: Vec<u8> = Vec::new();
        let l: usize = kani::any();
        kani::assume(l <= 3);
        let mut i = 0;
        while i < l {
            let c: u8 = kani::any();
            kani::assume(c < 128);
            v.push(c);
            i += 1;
        }
        unsafe { FORMATTED_LEN = l; let mut j = 0; while j < l { FORMATTED[j] = v[j]; j += 1; } }
        unsafe { String::from_utf8_unchecked(v) }
    }
    pub static mut FORMATTED: [u8; 3] = [0; 3];
    pub static mut FORMATTED_LEN: usize = 0;

    #[kani::proof]
    #[kani::unwind(8)]
    #[kani::stub(alloc::fmt::format, stub_format)]
    pub fn c10_from_format() {
        let r = UnixString::from_format(format_args!("x"));
        let x = r.as_slice();
        let (f, fl) = unsafe { (FORMATTED, FORMATTED_LEN) };
        assert!(!x.is_empty() && x[x.len() - 1] == 0, "from_format_terminated");
        let mut nul_free = true;
        let mut i = 0;
        while i < fl { if f[i] == 0 { nul_free = false; } i += 1; }
        if nul_free {
            assert!(nul_once(x) && x.len() == fl + 1, "from_format_nul_free_input_terminated_once");
            let mut i = 0;
            while i < fl { assert!(x[i] == f[i], "from_format_bytes"); i += 1; }
        }
    }

    #[kani::proof]
    #[kani::unwind(8)]
    #[kani::stub(alloc::fmt::format, stub_format)]
    pub fn c10_path_join_fmt() {
        let mut a = [0u8; 3 + 1];
        let s = any_unix(&mut a);
        let r = s.path_join_fmt(format_args!("x"));
        let x = r.as_slice();
        let (f, fl) = unsafe { (FORMATTED, FORMATTED_LEN) };
        assert!(!x.is_empty() && x[x.len() - 1] == 0, "join_fmt_terminated");
        let mut nul_free = true;
        let mut i = 0;
        while i < fl { if f[i] == 0 { nul_free = false; } i += 1; }
        if nul_free {
            assert!(nul_once(x), "join_fmt_nul_free_input_terminated_once");
        }
    }

    #[kani::proof]
    #[kani::unwind(8)]
    pub fn c10_try_from_str_and_validate() {
        // ASCII strs up to 4 bytes
        let mut b = [0u8; 4];
        let l: usize = kani::any();
        kani::assume(l <= 4);
        let mut i = 0;
        while i < 4 { let c: u8 = kani::any(); kani::assume(c < 128); b[i] = c; i += 1; }
        let t = unsafe { core::str::from_utf8_unchecked(&b[..l]) };
        match UnixStr::try_from_str(t) {
            Ok(u) => assert!(nul_once(t.as_bytes()) && u.as_slice().len() == l, "str_ok_only_for_terminated_once"),
            Err(_) => assert!(!nul_once(t.as_bytes()), "str_err_only_for_invalid"),
        }
        match UnixString::try_from_str(t) {
            Ok(u) => assert!(nul_once(u.as_slice()), "owned_str_result_terminated_once"),
            Err(_) => {}
        }
        if nul_once(t.as_bytes()) {
            // the literal macro's validator accepts exactly the valid strings (it panics otherwise)
            let u = UnixStr::from_str_checked(t);
            assert!(u.as_slice().len() == l, "from_str_checked_identity");
        }
        match rusl::string::strlen::buf_strlen(t.as_bytes()) {
            Ok(i) => assert!(i < l && b[i] == 0, "buf_strlen_first_nul"),
            Err(_) => { let mut i = 0; while i < l { assert!(b[i] != 0, "buf_strlen_err_only_nul_free"); i += 1; } }
        }
    }

    /// conformance of the assumed contracts of the Verus prelude, asserted on the real core/alloc
    /// functions (so a wrong assumption shows up as a failed Kani check instead of a false proof)
    #[kani::proof]
    #[kani::unwind(8)]
    pub fn c10_prelude_conformance() {
        let mut b = [0u8; N + 1];
        let s = any_bytes(&mut b);
        // [T]::to_vec
        let v = s.to_vec();
        assert!(v.len() == s.len(), "to_vec_len");
        let mut i = 0;
        while i < s.len() { assert!(v[i] == s[i], "to_vec_bytes"); i += 1; }
        // Option<&T>::copied / last / first
        assert!(v.last().copied() == if s.is_empty() { None } else { Some(s[s.len() - 1]) }, "last_copied");
        assert!(v.first().copied() == if s.is_empty() { None } else { Some(s[0]) }, "first_copied");
        // [T]::get_unchecked for index and ranges (in bounds)
        if s.len() >= 2 {
            unsafe {
                assert!(*s.get_unchecked(0) == s[0], "get_unchecked_index");
                let t = s.get_unchecked(1..);
                assert!(t.len() == s.len() - 1 && t[0] == s[1], "get_unchecked_range_from");
                let u = s.get_unchecked(..=1);
                assert!(u.len() == 2 && u[1] == s[1], "get_unchecked_range_to_inclusive");
                let w = s.get_unchecked(..1);
                assert!(w.len() == 1 && w[0] == s[0], "get_unchecked_range_to");
            }
        }
        // <Vec<u8> as Extend<u8>>::extend(Vec<u8>) appends; extend_from_slice appends; pop drops the last
        let mut x = s.to_vec();
        let y = s.to_vec();
        x.extend(y);
        assert!(x.len() == 2 * s.len(), "extend_vec_len");
        if !s.is_empty() { assert!(x[s.len()] == s[0], "extend_vec_appends_in_order"); }
        let mut z = s.to_vec();
        z.extend_from_slice(s);
        assert!(z.len() == 2 * s.len(), "extend_from_slice_len");
        let p = z.pop();
        assert!(p.is_some() == !s.is_empty(), "pop");
        // String seen through its bytes
        let mut ab = [0u8; 3];
        let l: usize = kani::any();
        kani::assume(l <= 3);
        let mut i = 0;
        while i < 3 { let c: u8 = kani::any(); kani::assume(c < 128); ab[i] = c; i += 1; }
        let st = unsafe { String::from_utf8_unchecked(ab[..l].to_vec()) };
        assert!(st.is_empty() == (l == 0), "string_is_empty_iff_no_bytes");
        let by = st.into_bytes();
        assert!(by.len() == l, "into_bytes_len");
        let mut i = 0;
        while i < l { assert!(by[i] == ab[i], "into_bytes_exact"); i += 1; }
    }

    #[kani::proof]
    #[kani::unwind(8)]
    pub fn c10_from_unixstr() {
        let mut a = [0u8; N + 1];
        let s = any_unix(&mut a);
        let o = UnixString::from(s);
        assert!(nul_once(o.as_slice()) && o.as_slice().len() == s.as_slice().len(), "owned_copy_terminated");
    }
}

//! C03 — bounded attempt: the real Dlmalloc over one region granted (or refused) by the stub kernel.
#![allow(unused_imports, clippy::all)]
use sc::kernel;
use tiny_std::allocator::dlmalloc::Dlmalloc;

#[cfg(kani)]
pub mod proofs {
    use super::*;

    fn in_arena(p: *mut u8, size: usize) -> bool {
        let base = unsafe { kernel::BIG_ARENA.as_ptr() as usize };
        let a = p as usize;
        a >= base && a + size <= base + kernel::BIG_ARENA_WORDS * 8
    }

    /// two allocations: each non-null result is aligned, inside memory the system granted, and the two
    /// blocks do not overlap; a refused mmap gives null
    #[kani::proof]
    #[kani::unwind(40)]
    pub fn c03_two_allocations_disjoint() {
        kernel::reset();
        kernel::set_mode(kernel::MODE_BIG_ARENA);
        kernel::set_call_budget(6);
        let mut a = Dlmalloc::new();
        let s1: usize = kani::any();
        let s2: usize = kani::any();
        kani::assume(s1 >= 1 && s1 <= 40 && s2 >= 1 && s2 <= 40);
        unsafe {
            let p1 = a.malloc(s1, 8);
            if !p1.is_null() {
                assert!(p1 as usize % 16 == 0, "aligned");
                assert!(in_arena(p1, s1), "inside_granted_memory");
                *p1 = 0xAB;
                let p2 = a.malloc(s2, 8);
                if !p2.is_null() {
                    assert!(in_arena(p2, s2), "inside_granted_memory_2");
                    let (x1, x2) = (p1 as usize, p2 as usize);
                    assert!(x1 + s1 <= x2 || x2 + s2 <= x1, "live_blocks_do_not_overlap");
                    assert!(*p1 == 0xAB, "first_block_intact");
                }
            } else {
                assert!(kernel::count_nr(sc::nr::MMAP) >= 1, "null_only_when_the_system_refused");
            }
        }
    }
}

//! C03 (arithmetic part) — full-domain, loop-free Kani proofs of dlmalloc's pure size-class helpers on
//! the compiled crate (reached through the `verif-hooks` re-exports), and conformance of the
//! constants the Verus unit restates.  The heap-level property is not decided (DESIGN §4.C03, §9.5).
#![allow(unused_imports, clippy::all)]
use tiny_std::allocator::dlmalloc::verif_hooks as h;

/// documented lower bound of tree bin i (dlmalloc: minsize_for_tree_index)
pub fn min_size_for_tree_index(i: u32) -> usize {
    let i = i as usize;
    (1usize << ((i >> 1) + 8)) | ((i & 1) << ((i >> 1) + 7))
}

#[cfg(kani)]
pub mod proofs {
    use super::*;

    #[kani::proof]
    pub fn c03_constants_match_the_verus_unit() {
        assert!(h::MALLOC_ALIGNMENT == 16 && h::CHUNK_OVERHEAD == 8 && h::MIN_CHUNK_SIZE == 32 && h::MIN_REQUEST == 23, "restated_constants");
        assert!(h::NSMALLBINS == 32 && h::NTREEBINS == 32 && h::SMALLBIN_SHIFT == 3 && h::TREEBIN_SHIFT == 8 && h::PAGE_SIZE == 4096, "restated_bin_constants");
        // every request the allocator accepts can be padded without overflow
        assert!(h::MAX_REQUEST <= usize::MAX - 64, "max_request_leaves_headroom");
    }

    #[kani::proof]
    pub fn c03_align_up() {
        let a: usize = kani::any();
        let k: u32 = kani::any();
        kani::assume(k < 40);
        let al = 1usize << k;
        kani::assume(a <= usize::MAX - al);
        let r = h::align_up(a, al);
        assert!(r >= a && r - a < al && r & (al - 1) == 0, "align_up_is_the_next_multiple");
    }

    #[kani::proof]
    pub fn c03_request2size_and_padding() {
        let req: usize = kani::any();
        kani::assume(req < h::MAX_REQUEST);
        let r = h::request2size(req);
        assert!(r >= req + h::CHUNK_OVERHEAD, "chunk_holds_request_and_header");
        assert!(r >= h::MIN_CHUNK_SIZE && r & (h::MALLOC_ALIGNMENT - 1) == 0, "legal_aligned_chunk_size");
        assert!(r - req < h::MIN_CHUNK_SIZE + h::MALLOC_ALIGNMENT, "bounded_waste");
        let p = h::pad_request(req);
        assert!(p >= req + h::CHUNK_OVERHEAD && p & 15 == 0 && p - req < h::CHUNK_OVERHEAD + h::MALLOC_ALIGNMENT, "pad_request");
        // monotone: a larger request never gets a smaller chunk
        let req2: usize = kani::any();
        kani::assume(req2 < h::MAX_REQUEST && req <= req2);
        assert!(h::request2size(req) <= h::request2size(req2), "request2size_monotone");
    }

    #[kani::proof]
    pub fn c03_small_bins() {
        let s: usize = kani::any();
        kani::assume(s < (1usize << 35));
        let i = h::small_index(s);
        assert!(i as usize == s >> 3, "small_index");
        assert!(h::is_small(s) == (s < 256), "is_small_iff_below_256");
        if s & 7 == 0 && s < 256 {
            assert!((i as usize) < h::NSMALLBINS && h::small_index2size(i) == s, "aligned_small_size_round_trip");
        }
        let a: usize = kani::any();
        assert!(h::is_aligned(a) == (a % 16 == 0), "is_aligned");
        kani::assume(a <= usize::MAX - 64);
        let off = h::align_offset_usize(a);
        assert!(off < 16 && (a + off) % 16 == 0, "align_offset");
        let m = h::mmap_align(a.min(usize::MAX - 8192));
        assert!(m % 4096 == 0, "mmap_align");
    }

    #[kani::proof]
    pub fn c03_bit_helpers() {
        let x: u32 = kani::any();
        kani::assume(x != 0);
        let lb = h::least_bit(x); // (`!x + 1` must not overflow for x != 0)
        assert!(lb != 0 && lb & (lb - 1) == 0 && x & lb == lb && x & (lb - 1) == 0, "least_bit_is_the_lowest_set_bit");
        assert!(lb == 1u32 << x.trailing_zeros(), "least_bit_equals_trailing_zeros");
        // left_bits of a single bit: all bits strictly to its left
        let k: u32 = kani::any();
        kani::assume(k < 32);
        let b = 1u32 << k;
        let l = h::left_bits(b);
        let expect = if k == 31 { 0 } else { !((b << 1) - 1) };
        assert!(l == expect, "left_bits_is_the_mask_left_of_the_bit");
    }

    #[kani::proof]
    pub fn c03_tree_index() {
        let s: usize = kani::any();
        let i = h::compute_tree_index(s);
        assert!(i < 32, "tree_index_in_range");
        if s < 256 {
            assert!(i == 0, "small_sizes_map_to_bin_0");
        } else if i < 31 {
            assert!(min_size_for_tree_index(i) <= s && s < min_size_for_tree_index(i + 1), "size_is_inside_its_bins_bracket");
        } else {
            assert!(s >= min_size_for_tree_index(31), "last_bin_takes_everything_larger");
        }
        let s2: usize = kani::any();
        kani::assume(s <= s2);
        assert!(i <= h::compute_tree_index(s2), "tree_index_monotone");
        // the shift used to walk a tree keeps the bit below the bin's size class inside a usize
        let sh = h::leftshift_for_tree_index(i);
        assert!(sh < 64, "leftshift_in_range");
        if i < 31 {
            assert!(sh as usize == 63 - ((i as usize >> 1) + 8 - 2), "leftshift_value");
        }
    }
}

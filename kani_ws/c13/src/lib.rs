//! C13 — Command::spawn on the compiled crate with the stub kernel's process contract: fork returns
//! an error, 0 (ghost role := child) or a pid; execve only ever fails; exit ends the path.
#![allow(unused_imports, clippy::all, static_mut_refs)]
use rusl::error::Errno;
use rusl::platform::Fd;
use rusl::string::unix_str::UnixStr;
use sc::kernel;
use sc::nr;
use tiny_std::process::{Command, Stdio};

pub fn bin() -> &'static UnixStr {
    unsafe { UnixStr::from_bytes_unchecked(b"/b\0") }
}
pub fn dir() -> &'static UnixStr {
    unsafe { UnixStr::from_bytes_unchecked(b"/d\0") }
}

#[cfg(kani)]
pub fn any_stdio(raw: i32) -> Option<Stdio> {
    let k: u8 = kani::any();
    match k {
        0 => None, // default: inherit
        1 => Some(Stdio::Inherit),
        2 => Some(Stdio::MakePipe),
        // ownership of a raw descriptor passes to the command (it is closed in the caller once spawn is done),
        // so each stream gets its own descriptor: handing the same one over twice would be the caller's double close
        _ => Some(Stdio::RawFd(Fd::try_new(raw).unwrap())),
        // Stdio::Null opens the constant DEV_NULL (const fat pointer: outside Kani's subset)
    }
}

/// index of the first recorded call with this number, or usize::MAX
pub fn first(nr_: usize) -> usize {
    let mut i = 0;
    while i < kernel::trace_len() {
        if kernel::trace(i).nr == nr_ {
            return i;
        }
        i += 1;
    }
    usize::MAX
}

/// At exit in the child: the last thing it did before exiting was to report the failing step's
/// errno through the sync pipe as errno_be ++ "NOEX" — 8 bytes, positive errno.
pub fn child_exit_check() {
    if !kernel::role_is_child() {
        return;
    }
    let n = kernel::trace_len();
    // trace[n-1] is the EXIT itself
    assert!(n >= 2, "child_exit_preceded_by_report");
    let w = kernel::trace(n - 2);
    assert!(w.nr == nr::WRITE && w.args[2] == 8, "child_reports_8_bytes_through_the_sync_pipe_before_exit");
    let p = w.args[1] as *const u8;
    let b = unsafe { [*p, *p.add(1), *p.add(2), *p.add(3), *p.add(4), *p.add(5), *p.add(6), *p.add(7)] };
    assert!(b[4] == b'N' && b[5] == b'O' && b[6] == b'E' && b[7] == b'X', "report_footer");
    let code = i32::from_be_bytes([b[0], b[1], b[2], b[3]]);
    // the failing step is the last system call before the report that returned an error
    assert!(n >= 3, "a_failing_step_precedes_the_report");
    let failing = kernel::trace(n - 3);
    assert!(kernel::is_err(failing.ret), "report_follows_a_failed_step");
    assert!(code == (0isize - failing.ret as isize) as i32 && code >= 1 && code <= 4095, "reported_errno_is_the_failing_steps_positive_errno");
}

#[cfg(kani)]
pub mod proofs {
    use super::*;

    /// quick tier: default stdio; cwd/uid/gid/pgroup each present or absent
    #[kani::proof]
    #[kani::unwind(15)]
    pub fn c13_q_spawn_returns_only_in_the_caller() {
        spawn_contract(0);
    }

    /// C12's quick variant: as above plus one symbolically chosen piped stream, so that spawn's pipe bookkeeping
    /// (descriptor frame, no double close) is on some path
    #[kani::proof]
    #[kani::unwind(15)]
    pub fn c13_p_spawn_descriptor_frame() {
        spawn_contract(1);
    }

    /// thorough tier: additionally every stdio mode for stdin/stdout
    #[kani::proof]
    #[kani::unwind(15)]
    pub fn c13_t_spawn_returns_only_in_the_caller() {
        spawn_contract(2);
    }

    /// index of the last recorded call with this number, or usize::MAX
    fn last(nr_: usize) -> usize {
        let mut i = kernel::trace_len();
        while i > 0 {
            i -= 1;
            if kernel::trace(i).nr == nr_ {
                return i;
            }
        }
        usize::MAX
    }

    /// Child::wait / try_wait on the child a successful spawn returned: wait4 is asked about exactly that
    /// pid (options 0 for wait, WNOHANG for try_wait); the result is the status the kernel stored, an error
    /// carries wait4's errno, try_wait gives None iff wait4 returned 0; once a status was obtained it is
    /// returned again without another system call.
    #[kani::proof]
    #[kani::unwind(20)]
    pub fn c13_wait_reports_the_status() {
        kernel::reset();
        kernel::set_mode(kernel::MODE_FDS | kernel::MODE_PROC | kernel::MODE_SMALL_OR_ERR);
        kernel::set_call_budget(16);
        let mut c = Command::new(bin()).unwrap();
        let r = c.spawn();
        if kernel::role_is_child() {
            return;
        }
        let Ok(mut child) = r else { return };
        let fork_at = first(nr::FORK);
        assert!(fork_at != usize::MAX, "a_child_exists");
        let pid = kernel::trace(fork_at).ret;
        assert!(child.get_pid() as usize == pid, "child_handle_names_the_forked_pid");
        let use_try: bool = kani::any();
        let before = kernel::count_nr(nr::WAIT4);
        let got: Result<Option<i32>, tiny_std::Error> = if use_try { child.try_wait() } else { child.wait().map(Some) };
        assert!(kernel::count_nr(nr::WAIT4) == before + 1, "one_wait4_per_wait");
        let w = kernel::trace(last(nr::WAIT4));
        assert!(w.args[0] as i32 == pid as i32, "wait4_names_the_child");
        assert!(w.args[2] == if use_try { 1 } else { 0 }, "WNOHANG_exactly_for_try_wait");
        if kernel::is_err(w.ret) {
            match &got {
                Err(tiny_std::Error::Os { code, .. }) => assert!(code.raw() == (0isize - w.ret as isize) as i32, "wait_error_carries_wait4s_errno"),
                _ => assert!(false, "wait_error_carries_wait4s_errno"),
            }
        } else if w.ret == 0 && use_try {
            assert!(matches!(&got, Ok(None)), "try_wait_none_iff_nothing_to_report");
        } else if w.ret != 0 {
            assert!(matches!(&got, Ok(Some(s)) if *s == kernel::last_wstatus()), "wait_returns_the_status_the_kernel_stored");
            // a second call answers from the stored status
            let again = if kani::any() { child.try_wait() } else { child.wait().map(Some) };
            assert!(kernel::count_nr(nr::WAIT4) == before + 1, "no_second_wait4_after_the_status_is_known");
            assert!(matches!(&again, Ok(Some(s)) if *s == kernel::last_wstatus()), "stored_status_returned_again");
        }
        kani::cover!(matches!(&got, Ok(Some(_))), "a status is reported");
        kani::cover!(matches!(&got, Ok(None)), "try_wait reports nothing yet");
    }

    fn spawn_contract(mode: u8) {
        let full = mode == 2;
        kernel::reset();
        kernel::set_mode(kernel::MODE_FDS | kernel::MODE_PROC | kernel::MODE_SMALL_OR_ERR);
        kernel::set_call_budget(13);
        kernel::set_exit_check(child_exit_check);
        kernel::fd_preexisting(9);
        kernel::fd_preexisting(10);
        let mut c = Command::new(bin()).unwrap();
        if kani::any() {
            c.cwd(dir());
        }
        if kani::any() {
            c.uid(kani::any());
        }
        if kani::any() {
            c.gid(kani::any());
        }
        if kani::any() {
            c.pgroup(kani::any());
        }
        let mut pipes_handed_over = 0;
        if mode == 1 && kani::any() {
            // quick tier: one piped stream, so that the pipe bookkeeping of spawn is on some path
            pipes_handed_over += 1;
            c.stdin(Stdio::MakePipe);
        }
        if full {
            if let Some(s) = any_stdio(9) {
                if matches!(s, Stdio::MakePipe) {
                    pipes_handed_over += 1;
                }
                c.stdin(s);
            }
            if let Some(s) = any_stdio(10) {
                if matches!(s, Stdio::MakePipe) {
                    pipes_handed_over += 1;
                }
                c.stdout(s);
            }
        }
        let r = c.spawn();
        // (1) whatever failed: only the caller ever gets here
        assert!(!kernel::role_is_child(), "spawn_returns_only_in_the_calling_process");
        // (2) parent-side decode of the sync pipe
        let fork_at = first(nr::FORK);
        if fork_at != usize::MAX && !kernel::is_err(kernel::trace(fork_at).ret) {
            // find the first non-EINTR read after the fork
            let eintr = (0isize - Errno::EINTR.raw() as isize) as usize;
            let mut i = fork_at + 1;
            let mut decided = usize::MAX;
            while i < kernel::trace_len() {
                let c = kernel::trace(i);
                if c.nr == nr::READ && c.ret != eintr {
                    decided = i;
                    break;
                }
                i += 1;
            }
            assert!(decided != usize::MAX, "parent_reads_the_sync_pipe");
            let rd = kernel::trace(decided);
            assert!(r.is_ok() == (rd.ret == 0), "ok_iff_the_child_reported_nothing");
            if rd.ret != 0 {
                // the failed child is reaped before the error is returned
                assert!(kernel::count_nr(nr::WAIT4) >= 1 || r.is_err(), "failed_child_is_waited_for");
            }
        } else {
            assert!(r.is_err(), "no_child_no_ok");
        }
        // (3) descriptor frame in the caller (C12): on Err nothing spawn opened stays open — stdio pipes, both ends
        // of the CLOEXEC sync pipe; on Ok exactly the pipe ends handed to the caller inside `Child` are open
        assert!(kernel::bad_closes() == 0, "no_double_or_foreign_close");
        if r.is_err() {
            assert!(kernel::fds_open_by_callee() == 0, "nothing_opened_stays_open_on_error");
        } else {
            assert!(kernel::fds_open_by_callee() == pipes_handed_over, "only_the_pipe_ends_handed_to_the_caller_stay_open");
        }
        kani::cover!(r.is_ok(), "spawn succeeds");
        kani::cover!(r.is_err() && fork_at != usize::MAX, "child-side failure reported to the parent");
    }

    // ---- child-side checks run *at exit* (the only place a child path can be observed: the stub's
    // exit ends the path).  Configuration is passed through statics because the hook is a plain fn.
    pub static mut CFG_CWD: bool = false;
    pub static mut CFG_UID: Option<u32> = None;
    pub static mut CFG_NARGS: u8 = 0;
    pub static mut CFG_NENV: u8 = 0;
    pub static mut CFG_ARG1: usize = 0;
    pub static mut CFG_ARG2: usize = 0;
    pub static mut CFG_ENV1: usize = 0;
    pub static mut CFG_ENV2: usize = 0;
    pub static mut CHILD_EXITS_SEEN: u32 = 0;

    /// at child exit: if execve was reached, every configured step happened before it, successfully,
    /// in order, with the configured values, and execve got exactly bin / argv / envp
    pub fn child_path_check() {
        if !kernel::role_is_child() {
            return;
        }
        child_exit_check();
        let ex = first(nr::EXECVE);
        if ex == usize::MAX {
            return; // an earlier step failed (reported by child_exit_check)
        }
        unsafe {
            let e = kernel::trace(ex);
            assert!(e.args[0] == bin().as_ptr() as usize, "exec_of_the_configured_binary");
            let argv = e.args[1] as *const *const u8;
            let envp = e.args[2] as *const *const u8;
            assert!(*argv == bin().as_ptr(), "argv0_is_the_binary");
            if CFG_NARGS == 1 {
                assert!(*argv.add(1) as usize == CFG_ARG1 && (*argv.add(2)).is_null(), "argv_has_the_configured_argument_then_null");
            } else if CFG_NARGS == 2 {
                assert!(*argv.add(1) as usize == CFG_ARG1 && *argv.add(2) as usize == CFG_ARG2 && (*argv.add(3)).is_null(), "argv_has_both_arguments_in_order_then_null");
            } else {
                assert!((*argv.add(1)).is_null(), "argv_null_terminated");
            }
            if CFG_NENV == 0 {
                assert!((*envp).is_null(), "empty_environment");
            } else if CFG_NENV == 1 {
                assert!(*envp as usize == CFG_ENV1 && (*envp.add(1)).is_null(), "envp_has_the_configured_entry_then_null");
            } else {
                assert!(*envp as usize == CFG_ENV1 && *envp.add(1) as usize == CFG_ENV2 && (*envp.add(2)).is_null(), "envp_has_both_entries_in_order_then_null");
            }
            let cd = first(nr::CHDIR);
            let su = first(nr::SETUID);
            assert!(CFG_CWD == (cd != usize::MAX && cd < ex && !kernel::is_err(kernel::trace(cd).ret)), "chdir_iff_configured_before_exec");
            assert!(CFG_UID.is_some() == (su != usize::MAX && su < ex && !kernel::is_err(kernel::trace(su).ret)), "setuid_iff_configured_before_exec");
            if let Some(u) = CFG_UID {
                assert!(kernel::trace(su).args[0] == u as usize, "setuid_value");
            }
            if cd != usize::MAX && su != usize::MAX {
                assert!(cd < su, "chdir_before_setuid");
            }
            kani::cover!(true, "exec reached in the child");
        }
    }

    fn child_path(with_cwd: bool, uid: Option<u32>, nargs: u8, nenv: u8) {
        use rusl::string::unix_str::UnixString;
        kernel::reset();
        kernel::set_mode(kernel::MODE_FDS | kernel::MODE_PROC | kernel::MODE_SMALL_OR_ERR);
        kernel::set_call_budget(13);
        kernel::set_exit_check(child_path_check);
        let a1 = unsafe { UnixStr::from_bytes_unchecked(b"-x\0") };
        let mut c = Command::new(bin()).unwrap();
        if with_cwd {
            c.cwd(dir());
        }
        if let Some(u) = uid {
            c.uid(u);
        }
        let a2 = unsafe { UnixStr::from_bytes_unchecked(b"-y\0") };
        if nargs >= 1 {
            c.arg(a1);
        }
        if nargs == 2 {
            // through the iterator front end, on a command that already has an argument
            c.args([a2].into_iter());
        }
        let e1 = UnixString::try_from_bytes(b"A=1\0").unwrap();
        let e2 = UnixString::try_from_bytes(b"B=2\0").unwrap();
        unsafe {
            CFG_CWD = with_cwd;
            CFG_UID = uid;
            CFG_NARGS = nargs;
            CFG_NENV = nenv;
            CFG_ARG1 = a1.as_ptr() as usize;
            CFG_ARG2 = a2.as_ptr() as usize;
            CFG_ENV1 = e1.as_ptr() as usize;
            CFG_ENV2 = e2.as_ptr() as usize;
        }
        if nenv >= 1 {
            c.env(e1);
        }
        if nenv >= 2 {
            c.env(e2);
        }
        let _ = c.spawn();
        assert!(!kernel::role_is_child(), "spawn_returns_only_in_the_calling_process");
    }

    /// the child's path to exec: the configured steps happen before exec, in order, with the
    /// configured values (no extra args / env here; shapes symbolic)
    #[kani::proof]
    #[kani::unwind(15)]
    pub fn c13_child_steps_in_order() {
        let uid: Option<u32> = if kani::any() { Some(kani::any()) } else { None };
        child_path(kani::any(), uid, 0, 0);
    }

    /// argv / envp handed to execve are exactly the configured argument and environment entries, in
    /// order, NULL-terminated.  (This crate builds tiny-std without the `start` feature: the
    /// configuration in which Command::env used to be ignored.)  Concrete shapes: one argument and
    /// 1 or 2 environment entries — symbolic Vec growth is what CBMC cannot carry here.
    #[kani::proof]
    #[kani::unwind(15)]
    pub fn c13_child_exec_args_env_1() {
        child_path(false, None, 1, 1);
    }
    #[kani::proof]
    #[kani::unwind(15)]
    pub fn c13_child_exec_args_env_2() {
        child_path(false, None, 2, 2);
    }
}
